//! C20 recorder: materialise driver configurations, run the built `sylt` binary, record what can be observed.
//!   c20 record <cases.ndjson> <sylt-binary> <lua-binary> <scratch-dir> <out.ndjson>
//! A case is `{idx, base, v, spell, cfg:{mode,path,req,nostd,pk,pn,why,std}}` (the configuration comes from
//! TLC's REPLAY records; Trace_Driver re-derives it from idx). For every case the recorder
//!   * writes the program files of class (pk,pn,why,std), variant v, into <scratch>/<idx>/ and prepares FILE,
//!   * runs `sylt <argv>` there with a `lua` shim first on PATH (the shim stores the chunk and lua's stderr, then
//!     delegates to the real interpreter), with stdout/stderr redirected to files and a timeout,
//!   * compiles the same files (same relative paths, served from memory) through the library API
//!     `sylt::compile_with_reader_to_writer` and runs the reference Lua in minilua: the reference error list and
//!     its rendering / program bytes / run output - always a second output of the *current* compiler,
//!   * records raw facts only (exit code, lengths, digests, common-prefix lengths, error blocks = lines naming
//!     `<source file>:<line>`, `require` occurrences): the classes and every verdict are derived by TLC in Trace_Driver.
//! A case may carry `"stub": "<kind>"` (negative controls): the world the command left behind is then changed the
//! way a defective driver would have left it (see `apply_stub`) before the facts are taken.

use rand::seq::SliceRandom;
use rand::{Rng, SeedableRng};
use serde_json::{json, Value};
use std::collections::BTreeMap;
use std::path::{Path, PathBuf};
use std::process::{Command, Stdio};
use vharness::luarun;
use vharness::project::{compile_opts, err_info, prelude_len, quiet_panics, CompileOpts, ErrInfo, Project};
use vharness::util::*;

const MODULE: &str = "c20mod";
const PRE_BEGIN: &str = "-- Begin Sylt preamble";

// ------------------------------------------------------------------------------------------- programs

/// Statements that print (std) or stay silent (std-free) but otherwise do the same.
fn say(std: bool, what: &str) -> String {
    if std {
        format!("    print({})\n", what)
    } else {
        format!("    {} <=> {}\n", what, what)
    }
}

/// The program files of a class. `main.sy` is the entry point; imports live next to it.
fn program(pk: &str, pn: u64, why: &str, std: bool, v: u64) -> BTreeMap<String, String> {
    let mut f: BTreeMap<String, String> = BTreeMap::new();
    let v = v % 3;
    // classes that are told apart by `why`
    match why {
        "longline" | "longline_nl" => {
            // a string literal of more than 8 KiB on one line; with "_nl" a line end inside the literal, followed by > 8 KiB
            let filler: String = (0..(8400 + 700 * v as usize)).map(|i| (b'a' + (i % 23) as u8) as char).collect();
            let lit = if why == "longline" { filler } else { format!("head of the literal\n{}", filler) };
            let body = match v {
                0 => format!("start :: fn do\n{}    s := \"{}\"\n    s <=> s\n{}end\n", say(std, "\"before\""), lit, say(std, "\"after\"")),
                1 => format!(
                    "long :: fn -> str do\n    ret \"{}\"\nend\n\nstart :: fn do\n{}    long() <=> long()\n{}end\n",
                    lit,
                    say(std, "1 + 2"),
                    say(std, "\"after\"")
                ),
                _ => {
                    f.insert("sub.sy".into(), format!("long :: fn -> str do\n    ret \"{}\"\nend\n", lit));
                    format!("use sub\n\nstart :: fn do\n{}    sub.long() <=> sub.long()\nend\n", say(std, "\"before\""))
                }
            };
            f.insert("main.sy".into(), body);
            return f;
        }
        "chain" => {
            // files WITH a syntax error of their own import further files that have errors (syntax errors, conflict
            // markers) or do not exist; every file's errors are to be printed
            let head = say(std, "\"never printed\"");
            let broken_fn = |name: &str, tok: &str| format!("{} :: fn do\n    z := {}\nend\n", name, tok);
            let conflict = "a :: fn do\nend\n<<<<<<< HEAD\nb :: 1\n=======\nb :: 2\n>>>>>>> other\n";
            let main = |uses: &str| format!("{}\nf1 :: fn do\n    x := (1 +\nend\n\nstart :: fn do\n{}    f1()\nend\n", uses, head);
            match v {
                0 => {
                    // depth 2 and depth 3 at once: main (broken) -> mid (broken), a missing file, a conflict-marked file;
                    // mid -> leaf (broken), another missing file, another conflict-marked file
                    f.insert("main.sy".into(), main("use mid\nuse c20gone1\nuse confa\n"));
                    f.insert("mid.sy".into(), format!("use leaf\nuse c20gone2\nuse confb\n\n{}", broken_fn("g", ")")));
                    f.insert("leaf.sy".into(), broken_fn("h", "]"));
                    f.insert("confa.sy".into(), conflict.into());
                    f.insert("confb.sy".into(), conflict.replace("a ::", "c ::"));
                }
                1 => {
                    // a chain: main (broken) -> mid (broken) -> leaf (broken) -> two missing files
                    f.insert("main.sy".into(), main("use mid\n"));
                    f.insert("mid.sy".into(), format!("use leaf\n\n{}", broken_fn("g", ")")));
                    f.insert("leaf.sy".into(), format!("use c20gone1\nuse c20gone2\n\n{}", broken_fn("h", "]")));
                }
                _ => {
                    // a diamond: main (broken) -> suba (broken), subb (fine); subb -> subc (broken) -> a missing file;
                    // suba -> a missing file, a conflict-marked file, subc
                    f.insert("main.sy".into(), main("use suba\nuse subb\n"));
                    f.insert("suba.sy".into(), format!("use c20gone1\nuse confa\nuse subc\n\n{}", broken_fn("g", ")")));
                    f.insert("subb.sy".into(), "use subc\n\nk :: fn do\nend\n".into());
                    f.insert("subc.sy".into(), format!("use c20gone2\n\n{}", broken_fn("h", "]")));
                    f.insert("confa.sy".into(), conflict.into());
                }
            }
            return f;
        }
        "missing2" | "missing3" | "missing_shared" | "missing_plus_syntax" => {
            let head = say(std, "\"never printed\"");
            match why {
                "missing2" => {
                    let uses = ["use c20gone1\nuse c20gone2\n", "use c20gone1\nuse sub\nuse c20gone2\n", "use sub\n"][v as usize];
                    f.insert("main.sy".into(), format!("{}\nstart :: fn do\n{}end\n", uses, head));
                    if v >= 1 {
                        // v = 2: both are missed by an imported file
                        f.insert("sub.sy".into(), (if v == 2 { "use c20gone1\nuse c20gone2\n\ng :: fn do\nend\n" } else { "g :: fn do\nend\n" }).into());
                    }
                }
                "missing3" => {
                    let uses = ["use c20gone1\nuse c20gone2\nuse c20gone3\n", "use c20gone3\nuse sub\nuse c20gone1\nuse c20gone2\n", "use c20gone1\nuse sub\n"][v as usize];
                    f.insert("main.sy".into(), format!("{}\nstart :: fn do\n{}end\n", uses, head));
                    if v >= 1 {
                        f.insert("sub.sy".into(), (if v == 2 { "use c20gone2\nuse c20gone3\n\ng :: fn do\nend\n" } else { "g :: fn do\nend\n" }).into());
                    }
                }
                "missing_shared" => {
                    // the same missing file, imported from two files
                    f.insert("main.sy".into(), format!("use suba\nuse subb\n{}\nstart :: fn do\n{}end\n", if v == 1 { "use c20gone1\n" } else { "" }, head));
                    f.insert("suba.sy".into(), "use c20gone1\n\ng :: fn do\nend\n".into());
                    f.insert("subb.sy".into(), (if v == 2 { "h :: fn do\nend\n" } else { "use c20gone1\n\nh :: fn do\nend\n" }).into());
                    if v == 2 {
                        // ... or twice from the same file's tree: main and suba
                        f.insert("main.sy".into(), format!("use suba\nuse subb\nuse c20gone1\n\nstart :: fn do\n{}end\n", head));
                    }
                }
                _ => {
                    // a missing import and a syntax error elsewhere
                    match v {
                        0 => {
                            f.insert("main.sy".into(), format!("use c20gone1\nuse sub\n\nstart :: fn do\n{}end\n", head));
                            f.insert("sub.sy".into(), "g :: fn do\n    z := )\nend\n".into());
                        }
                        1 => {
                            f.insert("main.sy".into(), format!("use sub\n\nstart :: fn do\n{}    z := )\nend\n", head));
                            f.insert("sub.sy".into(), "use c20gone1\n\ng :: fn do\nend\n".into());
                        }
                        _ => {
                            f.insert("main.sy".into(), format!("use c20gone1\n\nstart :: fn do\n{}    z := ]\nend\n", head));
                        }
                    }
                }
            }
            return f;
        }
        _ => {}
    }
    match pk {
        "acc" => match v {
            0 => {
                let body = format!(
                    "start :: fn do\n{}{}    x := 3 * 4\n    x <=> 12\n{}    (1 + 2) * 3 <=> 9\nend\n",
                    say(std, "1 + 2"),
                    say(std, "\"hello\""),
                    if std { "    print(x)\n" } else { "" }
                );
                f.insert("main.sy".into(), body);
            }
            1 => {
                let body = format!(
                    "A :: blob {{\n    x: int,\n    y: int,\n}}\n\nadd :: fn a: int, b: int -> int do\n    ret a + b\nend\n\n\
                     start :: fn do\n    a := A {{ x: 1, y: 2 }}\n    add(a.x, a.y) <=> 3\n{}    a.x = 5\n    a.x * a.y <=> 10\n{}end\n",
                    say(std, "add(a.x, a.y)"),
                    say(std, "a.x * a.y")
                );
                f.insert("main.sy".into(), body);
            }
            _ => {
                f.insert(
                    "main.sy".into(),
                    format!(
                        "use sub\n\nstart :: fn do\n    sub.twice(4) <=> 8\n{}{}end\n",
                        say(std, "sub.twice(21)"),
                        say(std, "\"done\"")
                    ),
                );
                f.insert("sub.sy".into(), "twice :: fn a: int -> int do\n    ret a * 2\nend\n".into());
            }
        },
        "rej" => {
            let head = say(std, "\"never printed\"");
            match (pn, v) {
                (1, 0) => {
                    f.insert("main.sy".into(), format!("start :: fn do\n{}    x : int = \"a\"\nend\n", head));
                }
                (1, 1) => {
                    f.insert("main.sy".into(), format!("start :: fn do\n{}    x := (1 +\nend\n", head));
                }
                (1, _) => {
                    f.insert("main.sy".into(), format!("use sub\n\nstart :: fn do\n{}    sub.g()\nend\n", head));
                    f.insert("sub.sy".into(), "g :: fn do\n    z := )\nend\n".into());
                }
                (2, 0) => {
                    f.insert(
                        "main.sy".into(),
                        format!("use sub\n\nf1 :: fn do\n    x := (1 +\nend\n\nstart :: fn do\n{}    f1()\n    sub.g()\nend\n", head),
                    );
                    f.insert("sub.sy".into(), "g :: fn do\n    z := )\nend\n".into());
                }
                (2, 1) => {
                    f.insert(
                        "main.sy".into(),
                        format!("start :: fn do\n{}    a := c20_nope1\n    b := c20_nope2\nend\n", head),
                    );
                }
                (2, _) => {
                    f.insert(
                        "main.sy".into(),
                        format!("f1 :: fn do\n    x := (1 +\nend\n\nf2 :: fn do\n    y := ]\nend\n\nstart :: fn do\n{}    f1()\nend\n", head),
                    );
                }
                // many errors (around the 8-bit wrap of an exit status): one broken definition per line
                (n, 0) => {
                    let mut m = format!("start :: fn do\n{}end\n\n", head);
                    for i in 0..n {
                        m.push_str(&format!("x{} :: )\n", i));
                    }
                    f.insert("main.sy".into(), m);
                }
                (n, 1) => {
                    // half of them in an imported file
                    let mut m = format!("use sub\n\nstart :: fn do\n{}end\n\n", head);
                    for i in 0..(n / 2) {
                        m.push_str(&format!("x{} :: ]\n", i));
                    }
                    let mut sub = String::new();
                    for i in (n / 2)..n {
                        sub.push_str(&format!("y{} :: )\n", i));
                    }
                    f.insert("main.sy".into(), m);
                    f.insert("sub.sy".into(), sub);
                }
                (n, _) => {
                    // before the entry point, two kinds of breakage alternating
                    let mut m = String::new();
                    for i in 0..n {
                        m.push_str(&if i % 2 == 0 { format!("x{} :: )\n", i) } else { format!("x{} :: fn do\n    z := ]\nend\n", i) });
                    }
                    m.push_str(&format!("\nstart :: fn do\n{}end\n", head));
                    f.insert("main.sy".into(), m);
                }
            }
        }
        _ => {
            // accepted, fails when run; with std there is output before (and would be after) the failure
            let fail = match why {
                "assert" => "    x := 1 + 1\n    x <=> 3\n".to_string(),
                "unreachable" => "    <!>\n".to_string(),
                _ => "    y := c20_missing(1)\n    y <=> 1\n".to_string(),
            };
            let ext = if why == "luaerr" { "c20_missing: fn int -> int : external\n\n" } else { "" };
            match v {
                0 => {
                    f.insert(
                        "main.sy".into(),
                        format!("{}start :: fn do\n{}{}{}end\n", ext, say(std, "\"before\""), fail, say(std, "\"after\"")),
                    );
                }
                1 => {
                    f.insert(
                        "main.sy".into(),
                        format!(
                            "{}boom :: fn do\n{}end\n\nstart :: fn do\n{}{}    boom()\n{}end\n",
                            ext,
                            fail,
                            say(std, "\"before\""),
                            say(std, "40 + 2"),
                            say(std, "\"after\"")
                        ),
                    );
                }
                _ => {
                    f.insert(
                        "main.sy".into(),
                        format!(
                            "use sub\n\nstart :: fn do\n{}    sub.boom()\n{}end\n",
                            say(std, "\"before\""),
                            say(std, "\"after\"")
                        ),
                    );
                    f.insert("sub.sy".into(), format!("{}boom :: fn do\n{}end\n", ext, fail));
                }
            }
        }
    }
    f
}

/// Every generator above breaks a file with one of these fragments, and nothing else contains them.
const BREAKS: [&str; 8] = [":= )", ":= ]", ":: )", ":: ]", ":= (1 +", "c20_nope", ": int = \"a\"", "<<<<<<<"];

/// The source files that carry an error of their own, by the program's construction: the files a generator broke
/// and the imported files that do not exist.
fn planted_files(files: &BTreeMap<String, String>, missing: &[String]) -> Vec<String> {
    let mut out: Vec<String> = files.iter().filter(|(_, t)| BREAKS.iter().any(|b| t.contains(b))).map(|(n, _)| n.clone()).collect();
    out.extend(missing.iter().cloned());
    out.sort();
    out.dedup();
    out
}

// ------------------------------------------------------------------------------------------- command line

struct Target {
    /// the FILE argument ("" when none), relative to the scratch directory
    file: String,
}

fn target_of(mode: &str, path: &str) -> Target {
    let file = match (mode, path) {
        ("stdout", _) => "-",
        ("file", "missing_parent") => "nodir/out.lua",
        ("file", "is_directory") => "outdir",
        ("file", "unwritable_device") => "/dev/full",
        ("file", "dev_null") => "/dev/null",
        ("file", "dev_stdout") => "/dev/stdout",
        ("file", "fifo") => "out.fifo",
        ("file", _) => "out.lua",
        _ => "",
    };
    Target { file: file.to_string() }
}

/// spell 0 is the canonical command line; other spellings are seeded random choices of flag names,
/// joined/split forms, module spelling and argument order.
fn argv(cfg: &Value, spell: u64, idx: u64) -> (Vec<String>, String) {
    let t = target_of(cfg["mode"].as_str().unwrap(), cfg["path"].as_str().unwrap());
    let req = cfg["req"].as_bool().unwrap();
    let nostd = cfg["nostd"].as_bool().unwrap();
    let mut rng = rand::rngs::StdRng::seed_from_u64(seed() ^ (idx.wrapping_mul(0x9E3779B97F4A7C15)) ^ (spell << 40) ^ 0xC20);
    let mut groups: Vec<Vec<String>> = vec![vec!["main.sy".to_string()]];
    if !t.file.is_empty() {
        let g = match if spell == 0 { 0 } else { rng.gen_range(0..4) } {
            0 => vec!["-o".to_string(), t.file.clone()],
            1 => vec!["--output".to_string(), t.file.clone()],
            2 => vec![format!("--output={}", t.file)],
            _ => vec![format!("-o{}", t.file)],
        };
        groups.push(g);
    }
    let mut module = String::new();
    if req {
        // how M is spelled is part of the configuration (SyltDriver!Mods)
        let m = cfg["marg"].as_str().unwrap().to_string();
        module = m.clone();
        let g = match if spell == 0 { 0 } else { rng.gen_range(0..4) } {
            0 => vec!["--require".to_string(), m],
            1 => vec!["-r".to_string(), m],
            2 => vec![format!("--require={}", m)],
            _ => vec![format!("-r{}", m)],
        };
        groups.push(g);
    }
    if nostd {
        groups.push(vec!["--no-std".to_string()]);
    }
    if spell != 0 {
        groups.shuffle(&mut rng);
    }
    (groups.into_iter().flatten().collect(), module)
}

// ------------------------------------------------------------------------------------------- raw facts

fn digest(b: &[u8]) -> String {
    let mut h: u64 = 0xcbf29ce484222325;
    for x in b {
        h ^= *x as u64;
        h = h.wrapping_mul(0x100000001b3);
    }
    hex(h)
}

fn lcp(a: &[u8], b: &[u8]) -> usize {
    a.iter().zip(b.iter()).take_while(|(x, y)| x == y).count()
}

fn count_sub(hay: &str, needle: &str) -> usize {
    hay.matches(needle).count()
}

fn strip_ansi(s: &str) -> String {
    let b: Vec<char> = s.chars().collect();
    let mut out = String::new();
    let mut i = 0;
    while i < b.len() {
        if b[i] == '\u{1b}' && i + 1 < b.len() && b[i + 1] == '[' {
            i += 2;
            while i < b.len() && !(b[i].is_ascii_alphabetic()) {
                i += 1;
            }
            i += 1;
        } else {
            out.push(b[i]);
            i += 1;
        }
    }
    out
}

/// The error blocks of a text, wording-free: one per line that ends in `<file>:<line>` where <file> is one of the
/// project's source files (as the command was given them) and is not glued to a longer name.
fn blocks(text: &str, rc: &Recog) -> Vec<Value> {
    let mut out = Vec::new();
    'lines: for line in strip_ansi(text).lines() {
        let line = line.trim_end();
        for name in rc.names.iter() {
            let pat = format!("{}:", name);
            if let Some(at) = line.rfind(&pat) {
                let digits = &line[at + pat.len()..];
                let before_ok = line[..at].chars().last().map(|c| !(c.is_alphanumeric() || c == '_' || c == '-' || c == '.')).unwrap_or(true);
                if before_ok && !digits.is_empty() && digits.chars().all(|c| c.is_ascii_digit()) {
                    if let Ok(n) = digits.parse::<u64>() {
                        out.push(json!({"file": name, "line": n}));
                        continue 'lines;
                    }
                }
            }
        }
        // an error without a source location: a line that names an imported file that does not exist
        for name in rc.missing.iter() {
            if line.contains(name.as_str()) {
                out.push(json!({"file": name, "line": 0}));
                continue 'lines;
            }
        }
    }
    out
}

/// What the block recogniser looks for: the project's source files and the imported files that do not exist.
struct Recog {
    names: Vec<String>,
    missing: Vec<String>,
}

/// Raw facts about a list of error blocks: how many, a digest of the list, a digest of the sorted list (the bag),
/// the files named, and the first few verbatim.
fn block_facts(bl: &[Value]) -> Value {
    let keys: Vec<String> = bl.iter().map(|b| format!("{}:{}", b["file"].as_str().unwrap_or(""), b["line"])).collect();
    let mut sorted = keys.clone();
    sorted.sort();
    let mut files: Vec<String> = bl.iter().map(|b| b["file"].as_str().unwrap_or("").to_string()).collect();
    files.sort();
    files.dedup();
    let mut named: Vec<String> = bl.iter().filter(|b| b["line"] == 0).map(|b| b["file"].as_str().unwrap_or("").to_string()).collect();
    named.sort();
    named.dedup();
    json!({"n": bl.len(), "seq": digest(keys.join(";").as_bytes()), "bag": digest(sorted.join(";").as_bytes()), "files": files, "named": named,
           "head": bl.iter().take(4).cloned().collect::<Vec<_>>()})
}

/// State of a path: absent | file (len, digest, common prefix with `reference`) | dir (digest of its listing)
/// | noparent (the parent directory does not exist) | device (a character device such as /dev/full).
fn path_fact(p: &Path, reference: &[u8]) -> Value {
    let parent_ok = p.parent().map(|d| d.as_os_str().is_empty() || d.is_dir()).unwrap_or(true);
    if !parent_ok {
        return json!({"k": "noparent", "len": 0, "digest": "", "lcp": 0});
    }
    {
        use std::os::unix::fs::FileTypeExt;
        if std::fs::metadata(p).map(|m| m.file_type().is_char_device()).unwrap_or(false) {
            return json!({"k": "device", "len": 0, "digest": "", "lcp": 0});
        }
    }
    if p.is_dir() {
        let mut names: Vec<String> = std::fs::read_dir(p)
            .map(|rd| rd.filter_map(|e| e.ok()).map(|e| e.file_name().to_string_lossy().to_string()).collect())
            .unwrap_or_default();
        names.sort();
        let mut acc = String::new();
        for n in names.iter() {
            acc.push_str(n);
            acc.push('=');
            acc.push_str(&digest(&std::fs::read(p.join(n)).unwrap_or_default()));
            acc.push(';');
        }
        return json!({"k": "dir", "len": names.len(), "digest": digest(acc.as_bytes()), "lcp": 0});
    }
    match std::fs::read(p) {
        Ok(b) => json!({"k": "file", "len": b.len(), "digest": digest(&b), "lcp": lcp(&b, reference)}),
        Err(_) => json!({"k": "absent", "len": 0, "digest": "", "lcp": 0}),
    }
}

/// Occurrences of a `require` of a literal module in `s`: (start, end, name) for `require "M"` / `require("M")` / `require 'M'`.
fn require_sites(s: &str) -> Vec<(usize, usize, String)> {
    let b = s.as_bytes();
    let mut out = Vec::new();
    let mut from = 0;
    while let Some(off) = s[from..].find("require") {
        let st = from + off;
        let mut i = st + "require".len();
        from = i;
        if st > 0 && (b[st - 1].is_ascii_alphanumeric() || b[st - 1] == b'_') {
            continue;
        }
        while i < b.len() && (b[i] == b' ' || b[i] == b'\t') {
            i += 1;
        }
        let paren = i < b.len() && b[i] == b'(';
        if paren {
            i += 1;
            while i < b.len() && b[i] == b' ' {
                i += 1;
            }
        }
        if i >= b.len() || (b[i] != b'"' && b[i] != b'\'') {
            continue;
        }
        let q = b[i];
        i += 1;
        let name_at = i;
        while i < b.len() && b[i] != q && b[i] != b'\n' {
            i += 1;
        }
        if i >= b.len() || b[i] != q {
            continue;
        }
        let name = s[name_at..i].to_string();
        i += 1;
        if paren {
            while i < b.len() && b[i] == b' ' {
                i += 1;
            }
            if i < b.len() && b[i] == b')' {
                i += 1;
            } else {
                continue;
            }
        }
        out.push((st, i, name));
    }
    out
}

fn run_facts(text: &str) -> Value {
    let o = luarun::run(text);
    let mut raw = String::new();
    for p in o.prints.iter() {
        raw.push_str(p);
        raw.push('\n');
    }
    json!({"status": o.status.short(), "out_len": raw.len(), "out_digest": digest(raw.as_bytes()),
           "requires": o.requires, "out": raw})
}

/// Facts about an emitted program, wherever it went (chunk given to lua, stdout, FILE).
fn emit_facts(bytes: &[u8], preamble: &str, wher: &str) -> Value {
    let none = json!({"present": false, "where": wher, "len": bytes.len(), "digest": digest(bytes), "pre_ok": false,
                      "pre_digest": "", "n_req": 0, "req_names": [], "n_req_pre": 0, "req_at": -1, "req_lead_blank": false,
                      "wo_req_digest": "", "run": {"status": "none", "out_len": 0, "out_digest": "", "requires": []}});
    if !bytes.starts_with(PRE_BEGIN.as_bytes()) {
        return none;
    }
    let text = String::from_utf8_lossy(bytes).to_string();
    let pl = prelude_len(&text);
    let (pre, body) = text.split_at(pl);
    let sites = require_sites(body);
    // the program without its (first) require statement: the site, an optional `;` and an optional line end are cut
    let (req_at, lead_blank, wo) = match sites.first() {
        Some((s, e, _)) => {
            let lead = &body[..*s];
            let lead_blank = lead.chars().all(|c| c.is_whitespace());
            let rest = &body[*e..];
            let rest = rest.strip_prefix(';').unwrap_or(rest);
            let rest = rest.strip_prefix('\n').unwrap_or(rest);
            (*s as i64, lead_blank, format!("{}{}{}", pre, lead, rest))
        }
        None => (-1, false, text.clone()),
    };
    let mut run = run_facts(&text);
    run.as_object_mut().unwrap().remove("out");
    json!({"present": true, "where": wher, "len": bytes.len(), "digest": digest(bytes),
           "pre_ok": pl > 0 && pre == preamble, "pre_digest": digest(pre.as_bytes()),
           "n_req": sites.len(), "req_names": sites.iter().map(|x| x.2.clone()).collect::<Vec<_>>(), "n_req_pre": require_sites(pre).len(), "req_at": req_at, "req_lead_blank": lead_blank,
           "wo_req_digest": digest(wo.as_bytes()), "run": run})
}

// ------------------------------------------------------------------------------------------- one configuration

const SHIM: &str = "#!/bin/sh\n: > \"$C20_STARTED\"\nif [ $# -gt 0 ] && [ -f \"$1\" ]; then cat \"$1\" > \"$C20_CHUNK\"; else cat > \"$C20_CHUNK\"; fi\n\"$C20_LUA\" \"$C20_CHUNK\" 2> \"$C20_LUAERR\"\nrc=$?\ncat \"$C20_LUAERR\" >&2\n: > \"$C20_DONE\"\nexit $rc\n";

/// Old content of an existing FILE: shorter than, exactly as long as, or longer than `n` bytes (the program to be written).
fn old_content(class: &str, n: usize) -> String {
    let want = match class {
        "existing_shorter" => n.min(120).saturating_sub(1).max(1),
        "existing_equal" => n.max(1),
        _ => n + 3000,
    };
    let mut s = String::new();
    let mut i = 0;
    while s.len() < want {
        s.push_str(&format!("-- old content of FILE, line {} (C20)\n", i));
        i += 1;
    }
    s.truncate(want);
    s
}

fn wait_for(p: &Path, ms: u64) -> bool {
    let t0 = std::time::Instant::now();
    while t0.elapsed().as_millis() < ms as u128 {
        if p.exists() {
            return true;
        }
        std::thread::sleep(std::time::Duration::from_millis(2));
    }
    p.exists()
}

/// The reference: the same files under the same relative paths, served from memory to the library API.
/// ("ok", lua) | ("err", errors) | ("panic")
enum Reference {
    Ok(String),
    Err(Vec<ErrInfo>),
    Panic,
}

fn reference(files: &BTreeMap<String, String>, nostd: bool, require: Option<String>) -> Reference {
    quiet_panics();
    let args = sylt::Args { args: vec!["main.sy".to_string()], no_std: nostd, require, ..Default::default() };
    let mut out: Vec<u8> = Vec::new();
    let res = {
        let reader = |p: &Path| -> Result<String, sylt_common::error::Error> {
            let key = p.to_string_lossy().to_string();
            let key = key.strip_prefix("./").unwrap_or(&key).to_string();
            files.get(&key).cloned().ok_or_else(|| sylt_common::error::Error::FileNotFound(p.to_path_buf()))
        };
        let w: &mut dyn std::io::Write = &mut out;
        std::panic::catch_unwind(std::panic::AssertUnwindSafe(|| sylt::compile_with_reader_to_writer(&args, reader, w)))
    };
    match res {
        Ok(Ok(())) => Reference::Ok(String::from_utf8_lossy(&out).to_string()),
        Ok(Err(errs)) => Reference::Err(errs.iter().map(err_info).collect()),
        Err(_) => Reference::Panic,
    }
}

/// Negative controls: change the world the command left behind the way a defective driver would have left it.
/// Returns whether the stub's precondition held (the check requires it to).
#[allow(clippy::too_many_arguments)]
fn apply_stub(
    kind: &str,
    mode: &str,
    exit: &mut i64,
    so: &mut Vec<u8>,
    se: &mut Vec<u8>,
    target: &Path,
    preamble: &str,
    names: &Recog,
    old: &str,
) -> bool {
    // the first require statement of an emitted program: (start, end, module)
    let first_req = |t: &str| -> Option<(usize, usize, String)> {
        let pl = prelude_len(t);
        require_sites(&t[pl..]).into_iter().next().map(|(a, b, n)| (pl + a, pl + b, n))
    };
    // the emitted program lives in FILE or on stdout (the chunk of run mode has been executed already)
    let edit_emitted = |f: &dyn Fn(&str) -> Option<String>, so: &mut Vec<u8>| -> bool {
        let cur = match mode {
            "file" => std::fs::read(target).unwrap_or_default(),
            "stdout" => so.clone(),
            _ => return false,
        };
        let text = String::from_utf8_lossy(&cur).to_string();
        if !text.starts_with(PRE_BEGIN) {
            return false;
        }
        match f(&text) {
            Some(new) => {
                if mode == "file" {
                    std::fs::write(target, new).unwrap();
                } else {
                    *so = new.into_bytes();
                }
                true
            }
            None => false,
        }
    };
    match kind {
        // exit status
        "exit0" => {
            let ok = *exit != 0;
            *exit = 0;
            ok
        }
        "exit1" => {
            let ok = *exit == 0;
            *exit = 1;
            ok
        }
        // errors
        "silent" => {
            let ok = !blocks(&String::from_utf8_lossy(so), names).is_empty() || !se.is_empty();
            so.clear();
            se.clear();
            ok
        }
        "first-only" | "twice" => {
            let text = String::from_utf8_lossy(so).to_string();
            let plain = strip_ansi(&text);
            let heads: Vec<usize> = {
                // byte offsets (in the ANSI-free text) of the lines that are block headings
                let mut offs = Vec::new();
                let mut at = 0;
                for line in plain.split_inclusive('\n') {
                    if !blocks(line, names).is_empty() {
                        offs.push(at);
                    }
                    at += line.len();
                }
                offs
            };
            if kind == "twice" {
                if heads.is_empty() {
                    return false;
                }
                *so = format!("{}{}", plain, plain).into_bytes();
                true
            } else {
                if heads.len() < 2 {
                    return false;
                }
                *so = plain[..heads[1]].as_bytes().to_vec();
                true
            }
        }
        // -o FILE
        "partial-file" => {
            if mode != "file" || *exit == 0 {
                return false;
            }
            std::fs::write(target, &preamble.as_bytes()[..preamble.len() / 2]).is_ok()
        }
        "truncate-file" => {
            if mode != "file" || *exit == 0 || !target.is_file() {
                return false;
            }
            std::fs::write(target, b"").is_ok()
        }
        "short-file" => edit_emitted(&|t: &str| if mode == "file" { Some(t[..t.len() - 1].to_string()) } else { None }, so),
        // -o -
        "newline" => edit_emitted(&|t: &str| if mode == "stdout" { Some(format!("{}\n", t)) } else { None }, so),
        // --require
        "req2" => edit_emitted(&|t: &str| first_req(t).map(|(a, b, _)| format!("{}{}\n{}", &t[..a], &t[a..b], &t[a..])), so),
        "req0" => edit_emitted(&|t: &str| first_req(t).map(|(a, b, _)| format!("{}{}", &t[..a], &t[b..])), so),
        "req-late" => edit_emitted(&|t: &str| first_req(t).map(|(a, b, _)| format!("{}{}\n{}\n", &t[..a], &t[b..], &t[a..b])), so),
        "req-other" => edit_emitted(&|t: &str| first_req(t).map(|(a, b, _)| format!("{}require \"c20other\"{}", &t[..a], &t[b..])), so),
        // a dotted module name loses what follows its last dot (as `Path::with_extension("")` would do)
        "req-stem" => edit_emitted(
            &|t: &str| {
                first_req(t).and_then(|(a, b, n)| n.rfind('.').map(|d| format!("{}require \"{}\"{}", &t[..a], &n[..d], &t[b..])))
            },
            so,
        ),
        // FILE opened without truncation: what the old content had beyond the new program is still there
        "keep-tail" => edit_emitted(
            &|t: &str| if mode == "file" && old.len() > t.len() { Some(format!("{}{}", t, &old[t.len()..])) } else { None },
            so,
        ),
        // the exit status carries the number of errors, 8 bits of it
        "exit-count" => {
            let n = blocks(&String::from_utf8_lossy(so), names).len() + blocks(&String::from_utf8_lossy(se), names).len();
            let ok = *exit != 0 && n > 0;
            *exit = (n % 256) as i64;
            ok
        }
        // --no-std: the emitted program behaves differently
        "nostd" => edit_emitted(&|t: &str| Some(format!("{}\nprint(\"c20 --no-std\")\n", t)), so),
        // an existing FILE that is not a regular file is refused although it can be written
        "refuse-special" => {
            let ok = *exit == 0;
            *exit = 1;
            so.clear();
            *se = b"Cannot write to FILE - it is not a file\n".to_vec();
            ok
        }
        // of several errors without a source location only the first is printed
        "drop-missing" => {
            let text = strip_ansi(&String::from_utf8_lossy(so));
            let first = names.missing.iter().find(|m| text.contains(m.as_str())).cloned();
            let kept: Vec<&str> = text
                .lines()
                .filter(|l| !names.missing.iter().any(|m| l.contains(m.as_str())) || first.as_ref().map(|m| l.contains(m.as_str())).unwrap_or(false))
                .collect();
            let ok = names.missing.len() >= 2 && kept.len() < text.lines().count();
            *so = format!("{}\n", kept.join("\n")).into_bytes();
            ok
        }
        // stdout took only a part of one write: some bytes in the middle of the program are lost
        "lose-bytes" => edit_emitted(&|t: &str| if mode == "stdout" && t.len() > 4000 { Some(format!("{}{}", &t[..t.len() - 3000], &t[t.len() - 2900..])) } else { None }, so),
        // run mode: the program was never executed
        "run-skip" => {
            let ok = mode == "run" && !so.is_empty();
            so.clear();
            ok
        }
        _ => tool_error(&format!("unknown stub {}", kind)),
    }
}

/// What the objects behind stdout / stderr hold before the command starts (`append`, `shared`) and what the holder of
/// the original descriptor writes after it has ended (`shared`).  Neither names a source file, and they start differently.
const EARLIER: &str = "-- c20: this line was in the object before the command started\n-- c20: and so was this one\n";
const LATER: &str = "## c20: written through the same descriptor after the command ended\n";

/// One of the command's output descriptors, set up as the configuration's `io` says.
struct Stream {
    /// `shared`: the original descriptor (same open file description as the one the command inherits)
    keep: Option<std::fs::File>,
    pre: Vec<u8>,
    post: Vec<u8>,
}

fn open_stream(p: &Path, io: &str) -> (Stdio, Stream) {
    use std::io::Write;
    let fail = |e: std::io::Error| -> ! { tool_error(&format!("{}: {}", p.display(), e)) };
    match io {
        "pipe" => (Stdio::piped(), Stream { keep: None, pre: vec![], post: vec![] }),
        // `>> log`: a regular file that already has content, opened for appending
        "append" => {
            std::fs::write(p, EARLIER).unwrap_or_else(|e| fail(e));
            let f = std::fs::OpenOptions::new().append(true).open(p).unwrap_or_else(|e| fail(e));
            (Stdio::from(f), Stream { keep: None, pre: EARLIER.as_bytes().to_vec(), post: vec![] })
        }
        // `{ echo H; sylt ..; echo F; } > f`: one open file description, positioned behind what was written through it
        "shared" => {
            let mut f = std::fs::File::create(p).unwrap_or_else(|e| fail(e));
            f.write_all(EARLIER.as_bytes()).unwrap_or_else(|e| fail(e));
            let dup = f.try_clone().unwrap_or_else(|e| fail(e));
            (Stdio::from(dup), Stream { keep: Some(f), pre: EARLIER.as_bytes().to_vec(), post: LATER.as_bytes().to_vec() })
        }
        _ => (Stdio::from(std::fs::File::create(p).unwrap_or_else(|e| fail(e))), Stream { keep: None, pre: vec![], post: vec![] }),
    }
}

/// The object's content after everything: (the command's piece, raw facts about what surrounds it).
fn split_stream(raw: &[u8], st: &Stream) -> (Vec<u8>, Value) {
    let pre_ok = raw.starts_with(&st.pre);
    let post_ok = raw.len() >= st.pre.len() + st.post.len() && raw.ends_with(&st.post);
    let start = st.pre.len().min(raw.len());
    let end = if post_ok { raw.len() - st.post.len() } else { raw.len() }.max(start);
    (raw[start..end].to_vec(), json!({"pre_len": st.pre.len(), "pre_ok": pre_ok, "post_len": st.post.len(), "post_ok": post_ok, "len": raw.len()}))
}

/// Negative control: the object as a second, truncating opening with its own offset would have left it - what was
/// there is gone, the command's bytes start at 0, and the later write (at the original descriptor's offset) lies on top.
fn reopened(raw: &[u8], st: &Stream) -> Option<Vec<u8>> {
    let (cmd, _) = split_stream(raw, st);
    if st.pre.is_empty() || cmd.is_empty() {
        return None;
    }
    let mut out = cmd;
    if !st.post.is_empty() {
        let at = st.pre.len();
        if out.len() < at + st.post.len() {
            out.resize(at + st.post.len(), 0);
        }
        out[at..at + st.post.len()].copy_from_slice(&st.post);
    }
    Some(out)
}

/// A run that did not finish within the timeout is repeated once (the machine is shared: a stalled machine must not be
/// read as a hanging command); a command that really hangs does so again and is recorded as timed out.
fn run_case(case: &Value, sylt: &str, lua: &str, scratch: &Path, shimdir: &Path, preamble: &str) -> Value {
    let mut rec = run_case_once(case, sylt, lua, scratch, shimdir, preamble);
    let again = rec["timed_out"] == true;
    if again {
        rec = run_case_once(case, sylt, lua, scratch, shimdir, preamble);
    }
    rec.as_object_mut().unwrap().insert("repeated".into(), json!(again));
    rec
}

fn run_case_once(case: &Value, sylt: &str, lua: &str, scratch: &Path, shimdir: &Path, preamble: &str) -> Value {
    let idx = case["idx"].as_u64().unwrap();
    let cfg = &case["cfg"];
    let (mode, path, io) = (cfg["mode"].as_str().unwrap(), cfg["path"].as_str().unwrap(), cfg["io"].as_str().unwrap());
    let (pk, pn, why) = (cfg["pk"].as_str().unwrap(), cfg["pn"].as_u64().unwrap(), cfg["why"].as_str().unwrap());
    let (std_, nostd, req) = (cfg["std"].as_bool().unwrap(), cfg["nostd"].as_bool().unwrap(), cfg["req"].as_bool().unwrap());
    let v = case["v"].as_u64().unwrap();
    let spell = case["spell"].as_u64().unwrap();
    let stub = case["stub"].as_str().unwrap_or("").to_string();
    let files = program(pk, pn, why, std_, v);
    let missing: Vec<String> = match why {
        "missing2" | "chain" => vec!["c20gone1.sy", "c20gone2.sy"],
        "missing3" => vec!["c20gone1.sy", "c20gone2.sy", "c20gone3.sy"],
        "missing_shared" | "missing_plus_syntax" => vec!["c20gone1.sy"],
        _ => vec![],
    }
    .into_iter()
    .map(String::from)
    .collect();
    let planted = planted_files(&files, &missing);
    let names = Recog { names: files.keys().cloned().collect(), missing: missing.clone() };
    let (args, module) = argv(cfg, spell, idx);

    // the reference: the same files, compiled from memory through the library API, and run in minilua
    let no_run = || json!({"status": "none", "out_len": 0, "out_digest": "", "requires": [], "out": ""});
    let (ref_class, ref_lua, ref_errors, ref_blocks, ref_run) = match reference(&files, nostd, if req { Some(module.clone()) } else { None }) {
        Reference::Ok(lua) => {
            let run = run_facts(&lua);
            ("ok", lua, vec![], vec![], run)
        }
        Reference::Err(errors) => {
            let mut bl = Vec::new();
            for e in errors.iter() {
                bl.extend(blocks(&e.rendered, &names));
            }
            ("err", String::new(), errors.iter().map(|e| json!({"kind": e.kind, "file": e.file, "line": e.line})).collect::<Vec<_>>(), bl, no_run())
        }
        Reference::Panic => ("panic", String::new(), vec![], vec![], no_run()),
    };
    let ref_out = ref_run["out"].as_str().unwrap_or("").to_string();
    let lua_like: &[u8] = if ref_class == "ok" { ref_lua.as_bytes() } else { preamble.as_bytes() };

    // the world
    let dir = scratch.join(format!("{}", idx));
    let _ = std::fs::remove_dir_all(&dir);
    std::fs::create_dir_all(&dir).unwrap_or_else(|e| tool_error(&format!("mkdir {}: {}", dir.display(), e)));
    for (name, text) in files.iter() {
        std::fs::write(dir.join(name), text).unwrap();
    }
    std::fs::write(dir.join(format!("{}.lua", MODULE)), "c20mod_loaded = true\n").unwrap();
    let t = target_of(mode, path);
    let target: PathBuf = dir.join(if mode == "file" { t.file.as_str() } else { "out.lua" });
    let old = if path.starts_with("existing") {
        old_content(path, lua_like.len())
    } else if path == "symlink_file" {
        old_content("existing_longer", lua_like.len())
    } else {
        String::new()
    };
    match path {
        "existing_shorter" | "existing_equal" | "existing_longer" => std::fs::write(&target, &old).unwrap(),
        "is_directory" => {
            std::fs::create_dir_all(&target).unwrap();
            std::fs::write(target.join("keep.txt"), "keep\n").unwrap();
        }
        "symlink_file" => {
            std::fs::write(dir.join("real.lua"), &old).unwrap();
            std::os::unix::fs::symlink("real.lua", &target).unwrap();
        }
        "symlink_dangling" => std::os::unix::fs::symlink("nowhere.lua", &target).unwrap(),
        "fifo" => {
            let st = Command::new("mkfifo").arg(&target).status();
            if !st.map(|x| x.success()).unwrap_or(false) {
                tool_error("mkfifo failed");
            }
        }
        _ => {}
    }
    // a reader at the other end of the fifo, for as long as the command runs: what it receives is what FILE "shows"
    let fifo_stop = std::sync::Arc::new(std::sync::atomic::AtomicBool::new(false));
    let fifo_reader = if path == "fifo" {
        use std::io::Read;
        use std::os::unix::fs::OpenOptionsExt;
        // O_RDWR | O_NONBLOCK: opening does not wait for a writer, reading an empty pipe does not block
        let mut fh = std::fs::OpenOptions::new().read(true).write(true).custom_flags(0o4000).open(&target).unwrap_or_else(|e| tool_error(&format!("fifo: {}", e)));
        let stop = fifo_stop.clone();
        Some(std::thread::spawn(move || {
            let mut got: Vec<u8> = Vec::new();
            let mut buf = [0u8; 65536];
            loop {
                // the flag is read BEFORE the pipe: an empty pipe ends the loop only if the command had already ended
                // when it was looked at (else what was written between the look and the flag would be lost)
                let stopping = stop.load(std::sync::atomic::Ordering::SeqCst);
                match fh.read(&mut buf) {
                    Ok(0) => {
                        if stopping {
                            break;
                        }
                        std::thread::sleep(std::time::Duration::from_millis(1))
                    }
                    Ok(n) => got.extend_from_slice(&buf[..n]),
                    Err(e) if e.kind() == std::io::ErrorKind::WouldBlock => {
                        if stopping {
                            break;
                        }
                        std::thread::sleep(std::time::Duration::from_millis(1));
                    }
                    Err(e) if e.kind() == std::io::ErrorKind::Interrupted => {}
                    Err(_) => break,
                }
            }
            got
        }))
    } else {
        None
    };
    let special_fact = |k: &str, bytes: &[u8]| json!({"k": k, "len": bytes.len(), "digest": if bytes.is_empty() { String::new() } else { digest(bytes) }, "lcp": lcp(bytes, lua_like)});
    let before = match path {
        "dev_stdout" => special_fact("nofile", &[]),
        "fifo" => special_fact("fifo", &[]),
        _ => path_fact(&target, lua_like),
    };
    let listing = |d: &Path| -> Vec<String> {
        let mut n: Vec<String> = std::fs::read_dir(d).unwrap().filter_map(|e| e.ok()).map(|e| e.file_name().to_string_lossy().to_string()).collect();
        n.sort();
        n
    };
    let names_before = listing(&dir);

    // the command
    let obs = dir.join(".obs");
    std::fs::create_dir_all(&obs).unwrap();
    let (so_p, se_p) = (obs.join("stdout"), obs.join("stderr"));
    let (chunk_p, luaerr_p, started_p, done_p) = (obs.join("chunk"), obs.join("luaerr"), obs.join("started"), obs.join("done"));
    let mut cmd = Command::new(sylt);
    cmd.args(&args)
        .current_dir(&dir)
        .env_clear()
        .env("PATH", format!("{}:/usr/bin:/bin", shimdir.display()))
        .env("RUST_BACKTRACE", "0")
        .env("C20_LUA", lua)
        .env("C20_CHUNK", &chunk_p)
        .env("C20_LUAERR", &luaerr_p)
        .env("C20_STARTED", &started_p)
        .env("C20_DONE", &done_p)
        .stdin(Stdio::null());
    let (so_io, mut so_st) = if path == "unwritable" {
        // stdout itself is the unwritable output path: every write to it fails with ENOSPC
        std::fs::write(&so_p, b"").unwrap();
        let full = std::fs::OpenOptions::new().write(true).open("/dev/full").unwrap_or_else(|e| tool_error(&format!("/dev/full: {}", e)));
        (Stdio::from(full), Stream { keep: None, pre: vec![], post: vec![] })
    } else if path == "dev_stdout" {
        // FILE = /dev/stdout shall be a pipe (not a regular file): the recorder reads its other end
        open_stream(&so_p, "pipe")
    } else {
        open_stream(&so_p, io)
    };
    let (se_io, mut se_st) = open_stream(&se_p, io);
    cmd.stdout(so_io).stderr(se_io);
    let mut child = cmd.spawn().unwrap_or_else(|e| tool_error(&format!("cannot start {}: {}", sylt, e)));
    drop(cmd); // the recorder's copies of the descriptors handed to the command
    fn drain<R: std::io::Read + Send + 'static>(mut r: R) -> std::thread::JoinHandle<Vec<u8>> {
        std::thread::spawn(move || {
            let mut got = Vec::new();
            let _ = r.read_to_end(&mut got);
            got
        })
    }
    let pipe_reader = child.stdout.take().map(drain);
    let err_reader = child.stderr.take().map(drain);
    let t0 = std::time::Instant::now();
    let (mut exit, timed_out) = loop {
        match child.try_wait().unwrap() {
            Some(st) => break (st.code().map(|c| c as i64).unwrap_or(-1), false),
            None if t0.elapsed().as_secs() > 60 => {
                let _ = child.kill();
                let _ = child.wait();
                break (-2, true);
            }
            None => std::thread::sleep(std::time::Duration::from_millis(1)),
        }
    };
    // sylt does not wait for the child when compilation fails: give an orphaned shim a moment to show up, then let it finish
    let lua_started = started_p.exists() || (mode == "run" && wait_for(&started_p, 400));
    if lua_started {
        wait_for(&done_p, 5000);
    }
    // `shared`: the holder of the original descriptors writes on, now that the command (and an orphaned child) has ended
    for st in [&mut so_st, &mut se_st] {
        if let Some(f) = st.keep.as_mut() {
            use std::io::Write;
            f.write_all(&st.post).unwrap_or_else(|e| tool_error(&format!("later write: {}", e)));
        }
        st.keep = None;
    }
    let mut so_raw = match pipe_reader {
        Some(h) => h.join().unwrap_or_default(),
        None => std::fs::read(&so_p).unwrap_or_default(),
    };
    let mut se_raw = match err_reader {
        Some(h) => h.join().unwrap_or_default(),
        None => std::fs::read(&se_p).unwrap_or_default(),
    };
    fifo_stop.store(true, std::sync::atomic::Ordering::SeqCst);
    let fifo_got: Vec<u8> = fifo_reader.map(|h| h.join().unwrap_or_default()).unwrap_or_default();
    let mut reopen_applied = false;
    if stub == "reopen-stdout" || stub == "reopen-stderr" {
        let (raw, st) = if stub == "reopen-stdout" { (&mut so_raw, &so_st) } else { (&mut se_raw, &se_st) };
        if let Some(new) = reopened(raw, st) {
            *raw = new;
            reopen_applied = true;
        }
    }
    let (mut so, so_world) = split_stream(&so_raw, &so_st);
    let (mut se, se_world) = split_stream(&se_raw, &se_st);
    let stub_applied = if stub.is_empty() {
        false
    } else if stub.starts_with("reopen-") {
        reopen_applied
    } else {
        apply_stub(&stub, mode, &mut exit, &mut so, &mut se, &target, preamble, &names, &old)
    };
    let so_text = String::from_utf8_lossy(&so).to_string();
    let se_text = String::from_utf8_lossy(&se).to_string();
    let chunk = std::fs::read(&chunk_p).unwrap_or_default();
    let luaerr = String::from_utf8_lossy(&std::fs::read(&luaerr_p).unwrap_or_default()).trim().to_string();
    let after = match path {
        "dev_stdout" => special_fact("nofile", &[]),
        "fifo" => {
            use std::os::unix::fs::FileTypeExt;
            let still = std::fs::symlink_metadata(&target).map(|m| m.file_type().is_fifo()).unwrap_or(false);
            special_fact(if still { "fifo" } else { "other" }, &fifo_got)
        }
        _ => path_fact(&target, lua_like),
    };
    let names_after: Vec<String> = listing(&dir).into_iter().filter(|n| n != ".obs").collect();
    let expected_names: Vec<String> = names_before.iter().cloned().collect();
    let extra: Vec<String> = names_after.iter().filter(|n| !expected_names.contains(n) && !(mode == "file" && path == "absent" && *n == "out.lua") && !(path == "symlink_dangling" && *n == "nowhere.lua")).cloned().collect();
    let sources_intact = files.iter().all(|(n, t)| std::fs::read_to_string(dir.join(n)).map(|x| &x == t).unwrap_or(false));

    let emitted: (&[u8], &str) = match mode {
        "run" => (&chunk, "chunk"),
        "stdout" => (&so, "stdout"),
        _ => (&[], "file"),
    };
    // where the emitted program can be looked at: FILE, the reader's end of the fifo, or stdout for FILE = /dev/stdout
    let file_bytes = match path {
        "fifo" => fifo_got.clone(),
        "dev_stdout" => so.clone(),
        _ if mode == "file" && after["k"] == "file" => std::fs::read(&target).unwrap_or_default(),
        _ => vec![],
    };
    let emit = if mode == "file" { emit_facts(&file_bytes, preamble, "file") } else { emit_facts(emitted.0, preamble, emitted.1) };

    // error blocks wherever the command printed them
    let mut all_blocks = blocks(&so_text, &names);
    let blocks_so = all_blocks.len();
    all_blocks.extend(blocks(&se_text, &names));
    let has_out = ref_out.is_empty() || so_text.contains(&ref_out);
    let lua_msg_printed = !luaerr.is_empty() && (so_text.contains(&luaerr) || se_text.contains(&luaerr));
    if std::env::var("C20_KEEP").is_err() {
        // everything needed is in the record (sources, argv, facts); C20_KEEP=1 keeps the scratch directories
        let _ = std::fs::remove_dir_all(&dir);
    }
    json!({
        "idx": idx, "base": case["base"], "v": v, "spell": spell, "cfg": cfg, "argv": args, "module": module,
        "stub": stub, "stub_applied": stub_applied, "missing": missing, "planted": planted,
        "world": {"io": io, "so": so_world, "se": se_world},
        "files": files, "exit": exit, "timed_out": timed_out,
        "se": {"len": se.len(), "panic": se_text.contains("panicked at"), "summary": se_text.starts_with("Error: "),
               "text": se_text.chars().take(400).collect::<String>()},
        "so": {"len": so.len(), "digest": digest(&so), "lcp_lua": lcp(&so, lua_like), "lcp_out": lcp(&so, ref_out.as_bytes()), "has_out": has_out,
               "markers": count_sub(&so_text, "-- End Sylt preamble"), "head": strip_ansi(&so_text).chars().take(300).collect::<String>()},
        "blocks": block_facts(&all_blocks), "blocks_so": blocks_so,
        "lua": {"started": lua_started, "chunk_len": chunk.len(), "chunk_digest": digest(&chunk),
                "chunk_lcp": lcp(&chunk, lua_like), "err_len": luaerr.len(), "msg_printed": lua_msg_printed},
        "old_len": old.len(), "before": before, "after": after, "extra_files": extra.len(), "sources_intact": sources_intact,
        "ref": {"class": ref_class, "lua_len": ref_lua.len(), "lua_digest": digest(ref_lua.as_bytes()),
                "nerrors": ref_errors.len(), "errors_head": ref_errors.iter().take(4).cloned().collect::<Vec<_>>(), "blocks": block_facts(&ref_blocks), "run": {"status": ref_run["status"], "out_len": ref_run["out_len"],
                "out_digest": ref_run["out_digest"], "requires": ref_run["requires"]}},
        "emit": emit,
    })
}

fn main() {
    let args: Vec<String> = std::env::args().collect();
    if args.len() != 7 || args[1] != "record" {
        tool_error("usage: c20 record <cases.ndjson> <sylt-binary> <lua-binary> <scratch-dir> <out.ndjson>");
    }
    let cases: Vec<Value> = read_ndjson(Path::new(&args[2]));
    let (sylt, lua) = (args[3].clone(), args[4].clone());
    for b in [&sylt, &lua] {
        if !Path::new(b).is_file() {
            tool_error(&format!("{} does not exist", b));
        }
    }
    {
        // "/dev/full" must be the character device that fails every write (else `-o /dev/full` would create a file there)
        use std::os::unix::fs::FileTypeExt;
        if !std::fs::metadata("/dev/full").map(|m| m.file_type().is_char_device()).unwrap_or(false) {
            tool_error("/dev/full is not a character device in this sandbox");
        }
    }
    let scratch = PathBuf::from(&args[5]);
    let shimdir = scratch.join("bin");
    std::fs::create_dir_all(&shimdir).unwrap();
    let shim = shimdir.join("lua");
    std::fs::write(&shim, SHIM).unwrap();
    {
        use std::os::unix::fs::PermissionsExt;
        std::fs::set_permissions(&shim, std::fs::Permissions::from_mode(0o755)).unwrap();
    }
    // the runtime preamble, measured: the prefix of a trivial compiled program up to the end marker
    let (trivial, _) = compile_opts(&Project::single("start :: fn do\nend\n"), &CompileOpts { no_std: true, require: None });
    let preamble = match trivial.lua() {
        Some(l) if prelude_len(l) > 0 && l.starts_with(PRE_BEGIN) => l[..prelude_len(l)].to_string(),
        _ => tool_error("cannot measure the runtime preamble (trivial program does not compile or has no end marker)"),
    };
    let recs = vharness::pool::par_map(&cases, |_, c| run_case(c, &sylt, &lua, &scratch, &shimdir, &preamble));
    write_ndjson(Path::new(&args[6]), &recs);
    println!("{}", recs.len());
}
