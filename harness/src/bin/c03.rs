//! C03 recorder: compile the unplanted (base) and the planted form of every mismatch case.
//!   c03 record <prelude.json> <cases.ndjson> <trace.ndjson> <sources.ndjson>
//!   c03 src <file.sy>                      (probe: compile one source file, print the outcome)
//! Case   (from MC_Mismatch, mode emit): {id:{kind,path,depth,..}, base:[top..], planted:[top..]}; the prelude
//!        (one JSON array of top-level nodes, printed once by TLC) is prepended to both.
//! Record (for MC_Mismatch, mode validate): {id, base, planted, nerr, bytes, base_nerr, base_bytes}
//!        base/planted = ok | err | panic; nerr = number of errors of the planted compile; bytes = bytes the
//!        planted compile wrote to the output writer.  Sources and error details go to <sources.ndjson>
//!        (same order), which only the Python driver reads.
//! C03_STUB=accept | bytes | panic : negative controls, falsify the planted observation of every 3rd record.

use serde_json::{json, Value};
use std::collections::HashMap;
use std::path::Path;
use std::sync::Mutex;
use vharness::printer::{print_program, PrintOpts};
use vharness::project::{compile_opts, CompileOpts};
use vharness::util::*;
use vharness::{CompileResult, Project};

#[derive(Clone)]
struct Obs {
    class: &'static str,
    nerr: usize,
    bytes: usize,
    detail: String,
}

fn observe(src: &str) -> Obs {
    let (r, _) = compile_opts(&Project::single(src), &CompileOpts::default());
    match r {
        CompileResult::Ok { lua } => Obs { class: "ok", nerr: 0, bytes: lua.len(), detail: String::new() },
        CompileResult::Err { errors, bytes_written } => Obs {
            class: "err",
            nerr: errors.len(),
            bytes: bytes_written,
            detail: errors
                .iter()
                .take(3)
                .map(|e| format!("{}@{}:{} {}", e.kind, e.file, e.line, e.message))
                .collect::<Vec<_>>()
                .join(" ;; "),
        },
        CompileResult::Panic { message, bytes_written } => {
            Obs { class: "panic", nerr: 0, bytes: bytes_written, detail: message }
        }
    }
}

fn main() {
    let args: Vec<String> = std::env::args().collect();
    if args.len() == 3 && args[1] == "src" {
        let src = std::fs::read_to_string(&args[2]).unwrap_or_else(|e| tool_error(&format!("{}: {}", args[2], e)));
        let o = observe(&src);
        println!("{} nerr={} bytes={} {}", o.class, o.nerr, o.bytes, o.detail);
        return;
    }
    if args.len() < 6 || args[1] != "record" {
        tool_error("usage: c03 record <prelude.json> <cases.ndjson> <trace.ndjson> <sources.ndjson> | c03 src <file.sy>");
    }
    let prelude: Vec<Value> = serde_json::from_str(
        &std::fs::read_to_string(&args[2]).unwrap_or_else(|e| tool_error(&format!("{}: {}", args[2], e))),
    )
    .unwrap_or_else(|e| tool_error(&format!("prelude: {}", e)));
    let cases: Vec<Value> = read_ndjson(Path::new(&args[3]));
    let stub = std::env::var("C03_STUB").unwrap_or_default();
    let opts = PrintOpts::default(); // annotations ON
    let cache: Mutex<HashMap<String, Obs>> = Mutex::new(HashMap::new());
    let render = |tops: &Value| -> String {
        let mut all = prelude.clone();
        all.extend(tops.as_array().unwrap_or_else(|| tool_error("case without top-level list")).iter().cloned());
        print_program(&all, &opts)
    };
    let cached = |src: &str| -> Obs {
        if let Some(o) = cache.lock().unwrap().get(src) {
            return o.clone();
        }
        let o = observe(src);
        cache.lock().unwrap().insert(src.to_string(), o.clone());
        o
    };
    let out: Vec<(Value, Value)> = vharness::pool::par_map(&cases, |i, c| {
        let base_src = render(&c["base"]);
        let planted_src = render(&c["planted"]);
        let b = cached(&base_src);
        let mut p = cached(&planted_src);
        if i % 3 == 1 {
            match stub.as_str() {
                "accept" => p = Obs { class: "ok", nerr: 0, bytes: 100, detail: "stub".into() },
                "bytes" => p.bytes = 7,
                "panic" => p = Obs { class: "panic", nerr: 0, bytes: 0, detail: "stub".into() },
                _ => {}
            }
        }
        let rec = json!({"id": c["id"], "base": b.class, "planted": p.class, "nerr": p.nerr, "bytes": p.bytes,
                         "base_nerr": b.nerr, "base_bytes": b.bytes, "same_text": base_src == planted_src});
        let src = json!({"id": c["id"], "base_src": base_src, "planted_src": planted_src,
                         "base_detail": b.detail, "planted_detail": p.detail});
        (rec, src)
    });
    let recs: Vec<&Value> = out.iter().map(|x| &x.0).collect();
    let srcs: Vec<&Value> = out.iter().map(|x| &x.1).collect();
    write_ndjson(Path::new(&args[4]), &recs);
    write_ndjson(Path::new(&args[5]), &srcs);
}
