//! C18 replayer: transitions of the SyltStd container models -> Sylt programs -> real compiler -> minilua.
//!   c18 replay <cases.ndjson> <results.ndjson> [batch]   one Sylt program per batch of transitions
//!   c18 print  <cases.ndjson> <n>                        source of the single-transition program of case n
//!   c18 run    <file.sy>                                 compile + run a Sylt file, show the output (debugging)
//! Case (printed by TLC, module SyltStd): {ty, kind, hist:[op], op, res, obs:[{op,res}]}, op = {op:name, a:[value]}.
//! Case of module SyltShare (kind "share", several registers r1, r2, r3): {ty, shape, hist:[sop], op:sop, res,
//!   regs:[{rk, et, how}] (the registers after the step), obs:[{reg, op, res}]}, sop = {op, a, on:register, from:register|0}.
//!   env C18_STUB=alias renders the derivation "copy" as a plain alias (`r2 = r1`): the stubbed implementation of the
//!   negative control, which the comparison must reject.
//! Result: {i, verdict, lines:[{cls, what, want, got}], status, source?}; expectations are only *rendered* here.

use serde_json::{json, Value};
use std::path::Path;
use vharness::luarun::{self, Status};
use vharness::util::*;
use vharness::{CompileResult, Project};

/// One expected output line of a transition: class (result|state|interchange), what was asked, rendered expectation.
pub struct PlanLine {
    pub cls: &'static str,
    pub what: String,
    pub want: String,
    /// register the line observes (SyltShare; 0 = the only container / a result)
    pub reg: usize,
}

/// Everything planned for one transition: its index in the case file, the expected lines, a stand-alone program.
pub struct Plan {
    pub index: usize,
    pub lines: Vec<PlanLine>,
    pub source: String,
}

// ---------------------------------------------------------------------------------------------------------
// Rendering. Nothing below decides what is expected: values and results come from the TLA+ record.

fn elem_type(ty: &str) -> &'static str {
    match ty {
        "int" => "int",
        "str" | "wstr" => "str",
        "pair" => "(int, int)",
        "spair" => "(str, str)",
        "float" => "float",
        // round 3: numeric-looking string keys; elements / values a runtime might take for "nothing"
        "nstr" | "nstr2" | "estr" => "str",
        "bool" => "bool",
        "unit" => "()",
        "lst" => "[int]",
        "mayb" => "Maybe(int)",
        "zint" => "int",
        "vbool" | "vunit" | "vlst" | "vmayb" => "str", // dicts with string keys, the VALUE type is the point
        _ => "int",
    }
}

fn dval_type(ty: &str) -> &'static str {
    match ty {
        "int" => "str",
        "str" => "int",
        "pair" => "(int, int)",
        "float" => "float",
        "estr" => "str",
        "vbool" => "bool",
        "vunit" => "()",
        "vlst" => "[int]",
        "vmayb" => "Maybe(int)",
        _ => "int",
    }
}

/// The generic function menu of SyltStd's FalsyTypes; `v1` (from the case record) is the first value of the instantiation.
fn generic_lambda(name: &str, ty: &str, v1: &Value) -> Option<(String, String)> {
    let same = elem_type(ty).to_string();
    if v1.is_null() || v1["k"] == "nil" {
        return None;
    }
    match name {
        "isv1" => Some((format!("pu x -> x == {} end", lit(v1)), same)),
        "nev1" => Some((format!("pu x -> x != {} end", lit(v1)), same)),
        "never" => Some(("pu x -> x != x end".to_string(), same)),
        "cntv1" => Some((format!("pu v, a -> a * 2 + (if v == {} do 1 else 0 end) end", lit(v1)), "int".into())),
        _ => None,
    }
}

/// The function menu of SyltStd (MapFns, Preds, FoldFns) as Sylt lambdas, with the result type of map functions.
fn lambda(name: &str, ty: &str) -> (&'static str, String) {
    let same = elem_type(ty).to_string();
    match name {
        "id" => ("pu x -> x end", same),
        // re-entrant callbacks (SyltStd ReNames): `c` is the list being traversed, aux / auxd / auxs the other containers
        "auxget" => ("pu x -> maybe.orDefault(list.get(aux, x), -1) end", "int".into()),
        "selfsum" => ("pu x -> list.fold(c, x, pu v, a -> a + v end) end", "int".into()),
        "dget" => ("pu x -> maybe.orDefault(dict.get(auxd, x), -1) end", "int".into()),
        "nestmap" => ("pu x -> list.fold(list.map(aux, pu y -> y * x end), 0, pu v, a -> a + v end) end", "int".into()),
        "auxget1" => ("pu x -> list.get(aux, x) == Maybe.Just 1 end", same),
        "selfget0" => ("pu x -> list.get(c, 0) == Maybe.Just x end", same),
        "indict" => ("pu x -> dict.contains_key(auxd, x) end", same),
        "inset" => ("pu x -> set.contains(auxs, x) end", same),
        "getacc" => ("pu v, a -> a * 3 + maybe.orDefault(list.get(aux, v), 5) end", "int".into()),
        "inc" => ("pu x -> x + 1 end", "int".into()),
        "mkpair" => ("pu x -> (x, x) end", format!("({}, {})", same, same)),
        "dup" => ("pu x -> x + x end", "str".into()),
        "tag" => ("pu x -> (x, 1) end", "(str, int)".into()),
        "swap" => ("pu x -> (x[1], x[0]) end", same),
        "fst" => ("pu x -> x[0] end", "int".into()),
        "join" => ("pu x -> x[0] + x[1] end", "str".into()),
        "pos" => ("pu x -> x > 0 end", same),
        "ne1" => ("pu x -> x != 1 end", same),
        "gt5" => ("pu x -> x > 5 end", same),
        "isab" => ("pu x -> x == \"ab\" end", same),
        "nea" => ("pu x -> x != \"a\" end", same),
        "iszz" => ("pu x -> x == \"zz\" end", same),
        "fst1" => ("pu x -> x[0] == 1 end", same),
        "ne11" => ("pu x -> x != (1, 1) end", same),
        "fstgt5" => ("pu x -> x[0] > 5 end", same),
        "fsta" => ("pu x -> x[0] == \"a\" end", same),
        "sndc" => ("pu x -> x[1] == \"c\" end", same),
        "fstzz" => ("pu x -> x[0] == \"zz\" end", same),
        "poly3" => ("pu v, a -> a * 3 + v end", "int".into()),
        "poly5" => ("pu v, a -> a * 5 + v[0] * 2 + v[1] end", "int".into()),
        "cat" => ("pu v, a -> a + v end", "str".into()),
        "catall" => ("pu v, a -> a + v[0] + v[1] end", "str".into()),
        other => tool_error(&format!("function {} is not in the menu", other)),
    }
}

/// A value of the specification written as Sylt source.
fn lit(v: &Value) -> String {
    match v["k"].as_str().unwrap_or("?") {
        "int" => {
            let n = v["v"].as_i64().unwrap();
            if n < 0 { format!("(-{})", -n) } else { format!("{}", n) }
        }
        "float" => {
            let f = v["n"].as_i64().unwrap() as f64 / 2f64.powi(v["d"].as_i64().unwrap() as i32);
            if f < 0.0 { format!("(-{})", lua_float_text(-f)) } else { lua_float_text(f) }
        }
        "str" => format!("\"{}\"", v["v"].as_str().unwrap()),
        "bool" => format!("{}", v["v"].as_bool().unwrap()),
        "tuple" => {
            let es: Vec<String> = v["es"].as_array().unwrap().iter().map(lit).collect();
            format!("({})", es.join(", "))
        }
        "list" => {
            let es: Vec<String> = v["es"].as_array().unwrap().iter().map(lit).collect();
            format!("[{}]", es.join(", "))
        }
        "variant" => match v["tag"].as_str().unwrap() {
            "None" => "Maybe.None".to_string(),
            tag => format!("(Maybe.{} {})", tag, lit(&v["val"])),
        },
        other => tool_error(&format!("cannot write a {} as source", other)),
    }
}

struct Emitter {
    body: Vec<String>,
    lines: Vec<PlanLine>,
    nlit: usize,
    kind: String,
    ty: String,
    reg: usize,
    aux: Value,
    v1: Value,
}

impl Emitter {
    fn stmt(&mut self, s: String) {
        self.body.push(format!("    {}", s));
    }
    fn expect(&mut self, cls: &'static str, what: String, expr: &str, want: String) {
        self.stmt(format!("print({})", expr));
        self.lines.push(PlanLine { cls, what, want, reg: self.reg });
    }
    /// a list literal bound to a typed local (an empty `[]` has no type of its own)
    fn list_local(&mut self, v: &Value, elem: &str) -> String {
        let name = format!("q{}", self.nlit);
        self.nlit += 1;
        self.stmt(format!("{}: [{}] = {}", name, elem, lit(v)));
        name
    }
    fn container_type(&self) -> String {
        match self.kind.as_str() {
            "list" => format!("[{}]", elem_type(&self.ty)),
            "dict" => format!("dict.Dict({}, {})", elem_type(&self.ty), dval_type(&self.ty)),
            _ => format!("set.Set({})", elem_type(&self.ty)),
        }
    }
    fn entry_type(&self) -> String {
        match self.kind.as_str() {
            "dict" => format!("({}, {})", elem_type(&self.ty), dval_type(&self.ty)),
            _ => elem_type(&self.ty).to_string(),
        }
    }
    /// a function of the menu as a Sylt lambda, with the result type of map functions
    fn lambda_of(&self, name: &str) -> (String, String) {
        if let Some(g) = generic_lambda(name, &self.ty, &self.v1) {
            return g;
        }
        let (text, t) = lambda(name, &self.ty);
        (text.to_string(), t)
    }
    /// the call expression of an operation on the container `c` (or of a helper)
    fn call(&mut self, op: &Value) -> String {
        let name = op["op"].as_str().unwrap();
        let args = op["a"].as_array().unwrap();
        let mut xs: Vec<String> = vec![];
        for a in args {
            if a["k"] == "fn" {
                xs.push(self.lambda_of(a["name"].as_str().unwrap()).0);
            } else {
                xs.push(lit(a));
            }
        }
        if self.kind == "helper" {
            let f = match name {
                "orDefault" | "isJust" | "isNone" => format!("maybe.{}", name),
                _ => name.to_string(),
            };
            return format!("{}({})", f, xs.join(", "));
        }
        if name == "eq" {
            // the abstract state as a source-written value
            let et = self.entry_type();
            let l = self.list_local(&args[0], &et);
            let kind = self.kind.clone();
            return match kind.as_str() {
                "list" => format!("c == {}", l),
                k => format!("c == {}.from_list({})", k, l),
            };
        }
        let mut all = vec!["c".to_string()];
        all.extend(xs);
        format!("{}.{}({})", self.kind, name, all.join(", "))
    }
    /// construct the container from the first operation of the history
    fn construct(&mut self, op: &Value) {
        let name = op["op"].as_str().unwrap();
        let ct = self.container_type();
        let kind = self.kind.clone();
        match (kind.as_str(), name) {
            ("list", "lit") if self.ty == "int" => {
                // callbacks (pure functions) may only mention constants: the list and the other containers are constant bindings
                let aux = self.aux.clone();
                self.stmt(format!("aux: [int] : {}", lit(&aux["l"])));
                self.stmt(format!("auxd: dict.Dict(int, int) : dict.from_list({})", lit(&aux["d"])));
                self.stmt(format!("auxs: set.Set(int) : set.from_list({})", lit(&aux["s"])));
                self.stmt(format!("c: {} : {}", ct, lit(&op["a"][0])))
            }
            ("list", "lit") => self.stmt(format!("c: {} = {}", ct, lit(&op["a"][0]))),
            (k, "new") => self.stmt(format!("c: {} = {}.new()", ct, k)),
            (k, "from_list") => {
                let et = self.entry_type();
                let l = self.list_local(&op["a"][0], &et);
                self.stmt(format!("c: {} = {}.from_list({})", ct, k, l))
            }
            (k, n) => tool_error(&format!("history of a {} starts with {}", k, n)),
        }
    }
    /// type of the elements of a list-valued result (map may change the element type)
    fn result_elem_type(&self, op: &Value) -> String {
        if op["op"] == "map" {
            self.lambda_of(op["a"][0]["name"].as_str().unwrap()).1
        } else {
            elem_type(&self.ty).to_string()
        }
    }
    /// print an expression whose expected value is `want`; Maybe / list values are also compared, inside Sylt,
    /// with the same value written in source
    fn observe(&mut self, cls: &'static str, what: &str, expr: &str, want: &Value, elem: &str, bind: Option<&str>) {
        let e: String = match bind {
            Some(n) => {
                self.stmt(format!("{} :: {}", n, expr));
                n.to_string()
            }
            None => expr.to_string(),
        };
        self.expect(cls, what.to_string(), &e, render_value(want));
        if cls == "state" {
            return; // interchangeability of what get/contains return is judged in their own transitions
        }
        match want["k"].as_str().unwrap_or("?") {
            "variant" => {
                self.expect("interchange", format!("{} == {}", what, lit(want)), &format!("{} == {}", e, lit(want)), "true".into());
                self.expect("interchange", format!("{} == {}", lit(want), what), &format!("{} == {}", lit(want), e), "true".into());
                let is_just = want["tag"] == "Just";
                self.expect("interchange", format!("isJust({})", what), &format!("maybe.isJust({})", e), format!("{}", is_just));
            }
            "list" => {
                let l = self.list_local(want, elem);
                self.expect(cls, format!("len({})", what), &format!("list.len({})", e), format!("{}", want["es"].as_array().unwrap().len()));
                self.expect("interchange", format!("{} == {}", what, lit(want)), &format!("{} == {}", e, l), "true".into());
            }
            "int" | "float" | "str" | "bool" | "tuple" => {
                self.expect("interchange", format!("{} == {}", what, lit(want)), &format!("{} == {}", e, lit(want)), "true".into());
            }
            _ => {}
        }
    }
}

fn op_text(op: &Value) -> String {
    let args: Vec<String> = op["a"].as_array().unwrap().iter()
        .map(|a| if a["k"] == "fn" { a["name"].as_str().unwrap().to_string() } else { render_value(a) }).collect();
    format!("{}({})", op["op"].as_str().unwrap(), args.join(", "))
}

/// The body of the Sylt function that replays one transition, and the lines it must print.
fn transition(case: &Value) -> (Vec<String>, Vec<PlanLine>) {
    let mut em = Emitter { body: vec![], lines: vec![], nlit: 0,
        kind: case["kind"].as_str().unwrap().to_string(), ty: case["ty"].as_str().unwrap().to_string(), reg: 0,
        aux: case["aux"].clone(), v1: case["v1"].clone() };
    if em.kind == "share" {
        return share_transition(case, em);
    }
    let hist = case["hist"].as_array().unwrap();
    let op = &case["op"];
    let mut todo: Vec<&Value> = hist.iter().collect();
    todo.push(op);
    let last = todo.len() - 1;
    for (k, o) in todo.iter().enumerate() {
        let is_op = k == last;
        if em.kind != "helper" && k == 0 {
            em.construct(o);
            continue;
        }
        if o["op"] == "for_each" {
            // the callback pushes what it computed onto another list: that list is the result
            let g = o["a"][0]["name"].as_str().unwrap();
            let (elem, body) = match g {
                "pushget" => ("int", "maybe.orDefault(list.get(aux, x), -1) + list.len(c)"),
                "pushhas" => ("bool", "list.contains(c, x + 1)"),
                other => tool_error(&format!("for_each callback {} is not in the menu", other)),
            };
            let out = format!("o{}", k);
            em.stmt(format!("{}: [{}] : []", out, elem));
            em.stmt(format!("list.for_each(c, fn x do list.push({}, {}) end)", out, body));
            if is_op {
                em.observe("result", &op_text(o), &out, &case["res"], elem, None);
            }
            continue;
        }
        let call = em.call(o);
        if !is_op {
            // history: only rebuild the state (results of earlier operations were judged in their own transition)
            let void = matches!(o["op"].as_str().unwrap(), "push" | "prepend" | "set" | "update" | "remove" | "add");
            em.stmt(if void { call } else { format!("h{} :: {}", k, call) });
            continue;
        }
        if case["res"]["k"] == "void" {
            em.stmt(call);
        } else {
            let elem = em.result_elem_type(o);
            em.observe("result", &op_text(o), &call, &case["res"], &elem, Some("r"));
        }
    }
    for ask in case["obs"].as_array().unwrap() {
        let call = em.call(&ask["op"]);
        let et = elem_type(&em.ty).to_string();
        let cls = if ask["op"]["op"] == "eq" { "interchange" } else { "state" };
        if cls == "interchange" {
            em.expect(cls, format!("container == {}", lit(&ask["op"]["a"][0])), &call, render_value(&ask["res"]));
        } else {
            em.observe(cls, &op_text(&ask["op"]), &call, &ask["res"], &et, None);
        }
    }
    (em.body, em.lines)
}

// ---------------------------------------------------------------------------------------------------------
// SyltShare: several registers. Register i is the Sylt local `r<i>`; its kind and element type come from the case.

/// element type `et` of a register ("int" | "pair" | "ent" = entry of the dict instantiation of `ty`) as a Sylt type
fn share_elem(et: &str, ty: &str) -> String {
    match et {
        "ent" => format!("({}, {})", elem_type(ty), dval_type(ty)),
        other => elem_type(other).to_string(),
    }
}

fn share_type(reg: &Value, ty: &str) -> String {
    let et = share_elem(reg["et"].as_str().unwrap(), ty);
    match reg["rk"].as_str().unwrap() {
        "dict" => format!("dict.Dict({}, {})", elem_type(ty), dval_type(ty)),
        "set" => format!("set.Set({})", et),
        _ => format!("[{}]", et), // list, bag
    }
}

fn share_op_text(o: &Value) -> String {
    let from = o["from"].as_u64().unwrap_or(0);
    if o["op"] == "lit" {
        format!("r1 := {}", render_value(&o["a"][0]))
    } else if from > 0 {
        format!("r{} := {} of r{}", o["on"], op_text(o), from)
    } else {
        format!("{} on r{}", op_text(o), o["on"])
    }
}

/// the statement(s) of a Lit / Derive / Mutate step; returns the expression of a non-void result (pop)
fn share_step(em: &mut Emitter, o: &Value, regs: &[Value], stub_alias: bool) -> Option<String> {
    let name = o["op"].as_str().unwrap();
    let on = o["on"].as_u64().unwrap() as usize;
    let from = o["from"].as_u64().unwrap() as usize;
    let ty = em.ty.clone();
    let r = format!("r{}", on);
    if name == "lit" || from > 0 {
        let t = share_type(&regs[on - 1], &ty);
        let s = format!("r{}", from);
        let fname = o["a"][0]["name"].as_str().unwrap_or("");
        match name {
            // registers are constant bindings (the containers stay mutable): pure callbacks may mention them
            "lit" => em.stmt(format!("{}: {} : {}", r, t, lit(&o["a"][0]))),
            "map" => em.stmt(format!("{}: {} : list.map({}, {})", r, t, s, lambda(fname, &ty).0)),
            "filter" => em.stmt(format!("{}: {} : list.filter({}, {})", r, t, s, lambda(fname, &ty).0)),
            "copy" if stub_alias => em.stmt(format!("{}: {} : {}", r, t, s)),
            "copy" => {
                em.stmt(format!("{}: {} : []", r, t));
                em.stmt(format!("list.for_each({}, fn x do list.push({}, x) end)", s, r));
            }
            "dict.from_list" => em.stmt(format!("{}: {} : dict.from_list({})", r, t, s)),
            "set.from_list" => em.stmt(format!("{}: {} : set.from_list({})", r, t, s)),
            "dict.map" => {
                let f = match fname {
                    "id" => "pu e -> e end".to_string(),
                    "setw" => format!("pu e -> (e[0], {}) end", lit(&o["a"][1])),
                    "reget" => format!("pu e -> (e[0], maybe.orDefault(dict.get({}, e[0]), {})) end", s, lit(&o["a"][1])),
                    "first" => "pu e -> maybe.orDefault(list.get(r1, 0), e) end".to_string(),
                    other => tool_error(&format!("dict.map function {} is not in the menu", other)),
                };
                em.stmt(format!("{}: {} : dict.map({}, {})", r, t, s, f));
            }
            "set.map" => {
                let f = match fname {
                    "reself" => format!("pu x -> (if set.contains({}, x) do x else {} end) end", s, lit(&o["a"][1])),
                    "first" => "pu x -> maybe.orDefault(list.get(r1, 0), x) end".to_string(),
                    other => lambda(other, &ty).0.to_string(),
                };
                em.stmt(format!("{}: {} : set.map({}, {})", r, t, s, f));
            }
            "entries" => {
                em.stmt(format!("{}: {} : []", r, t));
                if fname == "re" {
                    em.stmt(format!("dict.for_each({}, fn e do list.push({}, (e[0], maybe.orDefault(dict.get({}, e[0]), {}))) end)", s, r, s, lit(&o["a"][1])));
                } else {
                    em.stmt(format!("dict.for_each({}, fn e do list.push({}, e) end)", s, r));
                }
            }
            "elems" => {
                em.stmt(format!("{}: {} : []", r, t));
                if fname == "re" {
                    em.stmt(format!("set.for_each({}, fn e do\n        if set.contains({}, e) do\n            list.push({}, e)\n        end\n    end)", s, s, r));
                } else {
                    em.stmt(format!("set.for_each({}, fn e do list.push({}, e) end)", s, r));
                }
            }
            other => tool_error(&format!("unknown derivation {}", other)),
        }
        return None;
    }
    let module = match regs[on - 1]["rk"].as_str().unwrap() { "dict" => "dict", "set" => "set", _ => "list" };
    let mut all = vec![r];
    all.extend(o["a"].as_array().unwrap().iter().map(lit));
    let call = format!("{}.{}({})", module, name, all.join(", "));
    if name == "pop" {
        Some(call)
    } else {
        em.stmt(call);
        None
    }
}

fn share_transition(case: &Value, mut em: Emitter) -> (Vec<String>, Vec<PlanLine>) {
    let stub_alias = std::env::var("C18_STUB").map(|v| v == "alias").unwrap_or(false);
    let regs: Vec<Value> = case["regs"].as_array().unwrap().clone();
    let ty = em.ty.clone();
    let hist = case["hist"].as_array().unwrap();
    for (k, o) in hist.iter().enumerate() {
        if let Some(call) = share_step(&mut em, o, &regs, stub_alias) {
            em.stmt(format!("h{} :: {}", k, call));
        }
    }
    let op = &case["op"];
    em.reg = 0;
    if let Some(call) = share_step(&mut em, op, &regs, stub_alias) {
        let et = share_elem(regs[op["on"].as_u64().unwrap() as usize - 1]["et"].as_str().unwrap(), &ty);
        em.observe("result", &share_op_text(op), &call, &case["res"], &et, Some("r"));
    }
    for ask in case["obs"].as_array().unwrap() {
        let i = ask["reg"].as_u64().unwrap() as usize;
        let reg = &regs[i - 1];
        let rk = reg["rk"].as_str().unwrap();
        let et = share_elem(reg["et"].as_str().unwrap(), &ty);
        let r = format!("r{}", i);
        let o = &ask["op"];
        let name = o["op"].as_str().unwrap();
        let args: Vec<String> = o["a"].as_array().unwrap().iter().map(lit).collect();
        em.reg = i;
        let what = format!("r{}: {}", i, op_text(o));
        match (rk, name) {
            (_, "eq") | (_, "str") => {
                let lt = if rk == "dict" { share_elem("ent", &ty) } else { et.clone() };
                let l = em.list_local(&o["a"][0], &lt);
                let same = match rk { "dict" => format!("dict.from_list({})", l), "set" => format!("set.from_list({})", l), _ => l };
                if name == "eq" {
                    em.expect("interchange", format!("r{} == {} {}", i, rk, lit(&o["a"][0])), &format!("{} == {}", r, same), render_value(&ask["res"]));
                } else {
                    em.expect("print", format!("as_str(r{}) == as_str({} {})", i, rk, lit(&o["a"][0])),
                              &format!("as_str({}) == as_str({})", r, same), render_value(&ask["res"]));
                }
            }
            ("dict", _) => em.observe("state", &what, &format!("dict.{}({}, {})", name, r, args.join(", ")).replace(", )", ")"), &ask["res"], &et, None),
            ("set", _) => em.observe("state", &what, &format!("set.{}({}, {})", name, r, args.join(", ")).replace(", )", ")"), &ask["res"], &et, None),
            (_, _) => em.observe("state", &what, &format!("list.{}({}, {})", name, r, args.join(", ")).replace(", )", ")"), &ask["res"], &et, None),
        }
    }
    em.reg = 0;
    (em.body, em.lines)
}

fn program(items: &[(usize, &Value)]) -> (String, Vec<Plan>) {
    let mut src = String::new();
    let mut start = String::from("start :: fn do\n");
    let mut plans = vec![];
    for (n, case) in items {
        let (body, lines) = transition(case);
        let f = format!("t{} :: fn do\n    print(\"#T {}\")\n{}\nend\n\n", n, n, body.join("\n"));
        src.push_str(&f);
        start.push_str(&format!("    t{}()\n", n));
        plans.push(Plan { index: *n, lines, source: format!("{}start :: fn do\n    t{}()\nend\n", f, n) });
    }
    src.push_str(&start);
    src.push_str("end\n");
    (src, plans)
}

fn compile_and_run(src: &str) -> Result<luarun::RunObs, Value> {
    match vharness::compile(&Project::single(src)) {
        CompileResult::Ok { lua } => Ok(luarun::run(&lua)),
        CompileResult::Err { errors, .. } => Err(json!({"verdict": "rejected",
            "error": errors.first().map(|e| format!("{}:{} {} {}", e.file, e.line, e.kind, e.message))})),
        CompileResult::Panic { message, .. } => Err(json!({"verdict": "panic", "error": message})),
    }
}

fn main() {
    let args: Vec<String> = std::env::args().collect();
    if args.len() < 3 {
        tool_error("usage: c18 replay|print|run ...");
    }
    match args[1].as_str() {
        "run" => {
            let src = std::fs::read_to_string(&args[2]).unwrap_or_else(|e| tool_error(&format!("read: {}", e)));
            match compile_and_run(&src) {
                Ok(obs) => {
                    for l in &obs.prints {
                        println!("{}", l);
                    }
                    println!("-- status: {:?}", obs.status);
                }
                Err(e) => println!("-- {}", e),
            }
        }
        "print" => {
            let cases: Vec<Value> = read_ndjson(Path::new(&args[2]));
            let n: usize = args[3].parse().unwrap();
            let (src, _) = program(&[(n, &cases[n])]);
            println!("{}", src);
        }
        "replay" => {
            let cases: Vec<Value> = read_ndjson(Path::new(&args[2]));
            let batch: usize = args.get(4).and_then(|s| s.parse().ok()).unwrap_or(40);
            let results = replay(&cases, batch);
            write_ndjson(Path::new(&args[3]), &results);
        }
        _ => tool_error("unknown mode"),
    }
}

/// Run the transitions `idx` as one program; on a Lua runtime error inside transition k the transitions after k
/// are run again as a new program (an aborted program says nothing about them).
fn run_batch(cases: &[Value], idx: &[usize], out: &mut Vec<Value>, stats: &mut (usize, usize)) {
    let mut todo: Vec<usize> = idx.to_vec();
    while !todo.is_empty() {
        let items: Vec<(usize, &Value)> = todo.iter().map(|&i| (i, &cases[i])).collect();
        let (src, plans) = program(&items);
        stats.0 += 1;
        match compile_and_run(&src) {
            Err(mut e) => {
                if todo.len() > 1 {
                    // find the offending transition(s): run them one by one
                    stats.1 += 1;
                    for &i in &todo {
                        run_batch(cases, &[i], out, &mut (0, 0));
                    }
                } else {
                    e["i"] = json!(todo[0]);
                    e["source"] = json!(src);
                    out.push(e);
                }
                return;
            }
            Ok(obs) => {
                let (done, results) = judge(&plans, &obs, &src);
                out.extend(results);
                todo = todo[done..].to_vec();
            }
        }
    }
}

fn replay(cases: &[Value], batch: usize) -> Vec<Value> {
    // batches never mix instantiations: group by (kind, ty)
    let mut groups: std::collections::BTreeMap<String, Vec<usize>> = Default::default();
    for (i, c) in cases.iter().enumerate() {
        let key = format!("{}|{}", c["kind"].as_str().unwrap_or("?"), c["ty"].as_str().unwrap_or("?"));
        groups.entry(key).or_default().push(i);
    }
    let mut batches: Vec<Vec<usize>> = vec![];
    for (_, v) in groups {
        for ch in v.chunks(batch) {
            batches.push(ch.to_vec());
        }
    }
    let per_batch = vharness::pool::par_map(&batches, |_, b| {
        let mut out = vec![];
        let mut stats = (0usize, 0usize);
        run_batch(cases, b, &mut out, &mut stats);
        (out, stats)
    });
    let mut all: Vec<Value> = vec![];
    let (mut programs, mut rejected_batches) = (0, 0);
    for (o, s) in per_batch {
        all.extend(o);
        programs += s.0;
        rejected_batches += s.1;
    }
    all.sort_by_key(|r| r["i"].as_u64().unwrap_or(0));
    all.push(json!({"summary": true, "batches": batches.len(), "programs": programs, "rejected_batches": rejected_batches}));
    all
}

/// Split the output at the "#T n" markers and compare every planned line with what was printed.
/// Returns how many transitions of the plan were decided (all, or up to and including the one that died).
fn judge(plans: &[Plan], obs: &luarun::RunObs, src: &str) -> (usize, Vec<Value>) {
    let mut segs: Vec<Vec<String>> = vec![];
    for l in &obs.prints {
        if l.starts_with("#T ") {
            segs.push(vec![]);
        } else if let Some(s) = segs.last_mut() {
            s.push(l.clone());
        }
    }
    let finished = matches!(obs.status, Status::Done);
    let mut out = vec![];
    let n_seg = segs.len();
    for (k, plan) in plans.iter().enumerate() {
        if k >= n_seg {
            break;
        }
        let died_here = !finished && k + 1 == n_seg;
        let got = &segs[k];
        let lines: Vec<Value> = plan
            .lines
            .iter()
            .enumerate()
            .map(|(j, pl)| json!({"cls": pl.cls, "what": pl.what, "want": pl.want, "reg": pl.reg, "got": got.get(j).cloned().unwrap_or_else(|| "<missing>".into())}))
            .collect();
        let bad = lines.iter().any(|l| l["want"] != l["got"]) || got.len() != plan.lines.len();
        let verdict = if let Status::Unsupported { .. } = obs.status {
            "tool"
        } else if died_here {
            "lua_error"
        } else if bad {
            "mismatch"
        } else {
            "ok"
        };
        let mut r = json!({"i": plan.index, "verdict": verdict, "lines": lines});
        if died_here {
            r["status"] = json!(format!("{:?}", obs.status));
            // which planned line was being computed when the program died
            r["died_at"] = json!(plan.lines.get(got.len()).map(|l| json!({"cls": l.cls, "what": l.what, "reg": l.reg})));
        }
        if verdict != "ok" {
            r["source"] = json!(single_source(plan, src));
        }
        out.push(r);
    }
    if n_seg == 0 {
        // nothing ran at all: blame the first transition
        out.push(json!({"i": plans[0].index, "verdict": "lua_error", "lines": [], "status": format!("{:?}", obs.status), "source": src}));
        return (1, out);
    }
    (if finished { plans.len() } else { n_seg }, out)
}

fn single_source(plan: &Plan, _batch_src: &str) -> String {
    plan.source.clone()
}
