//! In-memory projects and the compile wrapper (public API, catch_unwind, recording writer).

use serde::{Deserialize, Serialize};
use std::cell::RefCell;
use std::collections::BTreeMap;
use std::io::Write;
use std::panic::{catch_unwind, AssertUnwindSafe};
use std::path::{Path, PathBuf};
use std::sync::Once;

use sylt_common::error::Error;
use sylt_common::FileOrLib;

pub const ROOT: &str = "/virt";

#[derive(Clone, Debug, Serialize, Deserialize, PartialEq, Eq, Hash)]
pub struct Project {
    /// path relative to the project root (e.g. "main.sy", "sub/b.sy") -> contents
    pub files: BTreeMap<String, String>,
    /// path of the main file relative to the root
    pub main: String,
}

impl Project {
    pub fn single(src: &str) -> Self {
        let mut files = BTreeMap::new();
        files.insert("main.sy".to_string(), src.to_string());
        Project { files, main: "main.sy".into() }
    }
    pub fn abs(rel: &str) -> PathBuf {
        PathBuf::from(format!("{}/{}", ROOT, rel))
    }
    pub fn rel(p: &Path) -> String {
        let s = p.to_string_lossy().to_string();
        s.strip_prefix(&format!("{}/", ROOT)).map(|x| x.to_string()).unwrap_or(s)
    }
}

#[derive(Clone, Debug, Serialize, Deserialize, PartialEq, Eq)]
pub struct ErrInfo {
    /// syntax | compile | type | file_not_found | git_conflict | io | lua | other
    pub kind: String,
    /// file relative to project root, or "lib:<name>", or "" when the error has no location
    pub file: String,
    pub line: usize,
    pub line_end: usize,
    pub col_start: usize,
    pub col_end: usize,
    /// the error's own message (not used for verdicts except determinism)
    pub message: String,
    /// `format!("{}", err)`; "<<render panicked: ..>>" if rendering panicked
    pub rendered: String,
    pub render_panicked: bool,
}

#[derive(Clone, Debug, Serialize, Deserialize, PartialEq, Eq)]
pub enum CompileResult {
    Ok { lua: String },
    Err { errors: Vec<ErrInfo>, bytes_written: usize },
    Panic { message: String, bytes_written: usize },
}

impl CompileResult {
    pub fn is_ok(&self) -> bool {
        matches!(self, CompileResult::Ok { .. })
    }
    pub fn is_err(&self) -> bool {
        matches!(self, CompileResult::Err { .. })
    }
    pub fn lua(&self) -> Option<&str> {
        match self {
            CompileResult::Ok { lua } => Some(lua),
            _ => None,
        }
    }
    pub fn class(&self) -> &'static str {
        match self {
            CompileResult::Ok { .. } => "ok",
            CompileResult::Err { .. } => "err",
            CompileResult::Panic { .. } => "panic",
        }
    }
}

static HOOK: Once = Once::new();

thread_local! {
    static LAST_PANIC: RefCell<Option<String>> = RefCell::new(None);
}

/// Install a quiet panic hook that remembers message + location per thread.
pub fn quiet_panics() {
    HOOK.call_once(|| {
        std::panic::set_hook(Box::new(|info| {
            let loc = info
                .location()
                .map(|l| format!("{}:{}", l.file(), l.line()))
                .unwrap_or_default();
            let msg = if let Some(s) = info.payload().downcast_ref::<&str>() {
                s.to_string()
            } else if let Some(s) = info.payload().downcast_ref::<String>() {
                s.clone()
            } else {
                "<non-string panic>".to_string()
            };
            LAST_PANIC.with(|p| *p.borrow_mut() = Some(format!("{} @ {}", msg, loc)));
        }));
    });
}

fn take_panic() -> String {
    LAST_PANIC.with(|p| p.borrow_mut().take()).unwrap_or_else(|| "<unknown panic>".into())
}

fn file_name(f: &FileOrLib) -> String {
    match f {
        FileOrLib::File(p) => Project::rel(p),
        FileOrLib::Lib(l) => format!("lib:{}", l),
    }
}

pub fn err_info(e: &Error) -> ErrInfo {
    let (kind, file, span, message) = match e {
        Error::SyntaxError { file, span, message } => ("syntax", file_name(file), Some(*span), message.clone()),
        Error::CompileError { file, span, message, .. } => {
            ("compile", file_name(file), Some(*span), message.clone().unwrap_or_default())
        }
        Error::TypeError { file, span, message, kind, .. } => (
            "type",
            file_name(file),
            Some(*span),
            format!("{:?}|{}", kind, message.clone().unwrap_or_default()),
        ),
        Error::GitConflictError { file, span } => ("git_conflict", file_name(file), Some(*span), String::new()),
        Error::FileNotFound(p) => ("file_not_found", Project::rel(p), None, String::new()),
        Error::IOError(e) => ("io", String::new(), None, format!("{}", e)),
        Error::LuaError(s) => ("lua", String::new(), None, s.clone()),
        Error::NoFileGiven => ("other", String::new(), None, "NoFileGiven".into()),
        Error::RuntimeError => ("other", String::new(), None, "RuntimeError".into()),
    };
    let (rendered, render_panicked) = match catch_unwind(AssertUnwindSafe(|| format!("{}", e))) {
        Ok(s) => (s, false),
        Err(_) => (format!("<<render panicked: {}>>", take_panic()), true),
    };
    ErrInfo {
        kind: kind.to_string(),
        file,
        line: span.map(|s| s.line_start).unwrap_or(0),
        line_end: span.map(|s| s.line_end).unwrap_or(0),
        col_start: span.map(|s| s.col_start).unwrap_or(0),
        col_end: span.map(|s| s.col_end).unwrap_or(0),
        message,
        rendered,
        render_panicked,
    }
}

#[derive(Clone, Debug, Default)]
pub struct CompileOpts {
    pub no_std: bool,
    pub require: Option<String>,
}

/// Compile an in-memory project through `sylt::compile_with_reader_to_writer`.
/// Returns the result and how often each path was asked of the reader.
pub fn compile_opts(p: &Project, opts: &CompileOpts) -> (CompileResult, BTreeMap<String, usize>) {
    quiet_panics();
    let reads: RefCell<BTreeMap<String, usize>> = RefCell::new(BTreeMap::new());
    let mut out: Vec<u8> = Vec::new();
    let main = Project::abs(&p.main);
    let args = sylt::Args {
        args: vec![main.to_string_lossy().to_string()],
        no_std: opts.no_std,
        require: opts.require.clone(),
        ..Default::default()
    };
    let res = {
        let reader = |path: &Path| -> Result<String, Error> {
            let rel = Project::rel(path);
            *reads.borrow_mut().entry(rel.clone()).or_insert(0) += 1;
            match p.files.get(&rel) {
                Some(s) => Ok(s.clone()),
                None => Err(Error::FileNotFound(path.to_path_buf())),
            }
        };
        let out_ref: &mut dyn Write = &mut out;
        catch_unwind(AssertUnwindSafe(|| sylt::compile_with_reader_to_writer(&args, reader, out_ref)))
    };
    let reads = reads.into_inner();
    let r = match res {
        Ok(Ok(())) => CompileResult::Ok { lua: String::from_utf8_lossy(&out).to_string() },
        Ok(Err(errs)) => CompileResult::Err {
            errors: errs.iter().map(err_info).collect(),
            bytes_written: out.len(),
        },
        Err(_) => CompileResult::Panic { message: take_panic(), bytes_written: out.len() },
    };
    (r, reads)
}

pub fn compile(p: &Project) -> CompileResult {
    compile_opts(p, &CompileOpts::default()).0
}

pub fn compile_src(src: &str) -> CompileResult {
    compile(&Project::single(src))
}

/// Length of the runtime prelude every emitted chunk starts with (measured, not assumed):
/// the longest common prefix of two different compiled programs, cut at the prelude end marker.
pub fn prelude_len(lua: &str) -> usize {
    const END: &str = "-- End Sylt preamble\n";
    lua.find(END).map(|i| i + END.len()).unwrap_or(0)
}

/// The part of an emitted chunk after the runtime prelude.
pub fn body_of(lua: &str) -> &str {
    &lua[prelude_len(lua)..]
}
