//! Running emitted Lua in `minilua` and projecting the run to an observation.

use minilua::{ErrClass, Event, Outcome, RunOptions};
use serde::{Deserialize, Serialize};

#[derive(Clone, Debug, Serialize, Deserialize, PartialEq, Eq)]
#[serde(tag = "s")]
pub enum Status {
    /// chunk ran to completion
    Done,
    /// a `<=>` failed (`assert(.., "Assert failed!")`)
    AssertFailed,
    /// a `<!>` was reached (`__CRASH("Reached unreachable code on line N")`)
    Unreachable { line: u32 },
    /// the chunk does not load (syntax error or static limit)
    LoadError { message: String },
    /// any other Lua runtime error; `class` is minilua's classification
    LuaError { class: String, message: String },
    /// resource exhaustion (allowed by C02; a dropped case elsewhere)
    StackOverflow,
    StepLimit,
    /// the interpreter does not implement something the chunk used: a tool error
    Unsupported { message: String },
}

impl Status {
    pub fn short(&self) -> String {
        match self {
            Status::Done => "done".into(),
            Status::AssertFailed => "assert_failed".into(),
            Status::Unreachable { .. } => "unreachable".into(),
            Status::LoadError { .. } => "load_error".into(),
            Status::LuaError { class, .. } => format!("lua_error:{}", class),
            Status::StackOverflow => "stack_overflow".into(),
            Status::StepLimit => "step_limit".into(),
            Status::Unsupported { .. } => "unsupported".into(),
        }
    }
    /// Is this a dynamic *typing* failure in the sense of C02?
    pub fn is_dynamic_type_error(&self) -> bool {
        match self {
            Status::LuaError { class, .. } => {
                matches!(class.as_str(), "Arith" | "Concat" | "Call" | "Index" | "Compare" | "TableIndex" | "ForLoop")
            }
            _ => false,
        }
    }
}

#[derive(Clone, Debug, Serialize, Deserialize, PartialEq, Eq)]
pub struct RunObs {
    /// one entry per output line
    pub prints: Vec<String>,
    pub status: Status,
    pub requires: Vec<String>,
    pub steps: u64,
}

#[derive(Clone, Debug)]
pub struct LuaRun {
    pub obs: RunObs,
    pub events: Vec<Event>,
}

fn class_name(c: &ErrClass) -> &'static str {
    match c {
        ErrClass::Arith => "Arith",
        ErrClass::Concat => "Concat",
        ErrClass::Call => "Call",
        ErrClass::Index => "Index",
        ErrClass::Compare => "Compare",
        ErrClass::Assert => "Assert",
        ErrClass::ErrorCall => "ErrorCall",
        ErrClass::TableIndex => "TableIndex",
        ErrClass::ForLoop => "ForLoop",
        ErrClass::StackOverflow => "StackOverflow",
        ErrClass::Other => "Other",
    }
}

pub fn default_opts() -> RunOptions {
    RunOptions {
        max_steps: 5_000_000,
        max_call_depth: 3000,
        record_events: false,
        capture_output: true,
        seed: 1,
    }
}

fn classify(outcome: &Outcome) -> Status {
    match outcome {
        Outcome::Done => Status::Done,
        Outcome::StepLimit => Status::StepLimit,
        Outcome::Unsupported(m) => Status::Unsupported { message: m.clone() },
        Outcome::Error { class, message, .. } => {
            if *class == ErrClass::StackOverflow {
                return Status::StackOverflow;
            }
            if *class == ErrClass::Assert {
                if message.contains("Assert failed!") {
                    return Status::AssertFailed;
                }
                if let Some(i) = message.find("Reached unreachable code on line ") {
                    let rest = &message[i + "Reached unreachable code on line ".len()..];
                    let n: String = rest.chars().take_while(|c| c.is_ascii_digit()).collect();
                    return Status::Unreachable { line: n.parse().unwrap_or(0) };
                }
            }
            Status::LuaError { class: class_name(class).to_string(), message: message.clone() }
        }
    }
}

/// Load only (C06): Ok(()) or the loader's message.
pub fn load_only(lua: &str) -> Result<(), String> {
    match minilua::load(lua) {
        Ok(_) => Ok(()),
        Err(e) => Err(format!("line {}: {}", e.line, e.message)),
    }
}

pub fn run_with(lua: &str, opts: &RunOptions) -> LuaRun {
    match minilua::run_source(lua, opts) {
        Err(e) => LuaRun {
            obs: RunObs {
                prints: vec![],
                status: Status::LoadError { message: format!("line {}: {}", e.line, e.message) },
                requires: vec![],
                steps: 0,
            },
            events: vec![],
        },
        Ok(r) => {
            let mut prints: Vec<String> = r.output.split('\n').map(|s| s.to_string()).collect();
            if prints.last().map(|s| s.is_empty()).unwrap_or(false) {
                prints.pop();
            }
            LuaRun {
                obs: RunObs { prints, status: classify(&r.outcome), requires: r.requires, steps: r.steps },
                events: r.events,
            }
        }
    }
}

pub fn run(lua: &str) -> RunObs {
    run_with(lua, &default_opts()).obs
}
