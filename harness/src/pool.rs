//! A tiny scoped work pool: `par_map(items, f)` keeps order, uses big-stack threads.

use std::sync::atomic::{AtomicUsize, Ordering};
use std::sync::Mutex;

pub fn threads() -> usize {
    std::env::var("VERIF_THREADS")
        .ok()
        .and_then(|s| s.parse().ok())
        .unwrap_or_else(|| std::thread::available_parallelism().map(|n| n.get()).unwrap_or(4))
}

pub fn par_map<T: Sync, R: Send, F: Fn(usize, &T) -> R + Sync>(items: &[T], f: F) -> Vec<R> {
    let n = items.len();
    let next = AtomicUsize::new(0);
    let out: Mutex<Vec<Option<R>>> = Mutex::new((0..n).map(|_| None).collect());
    let nt = threads().min(n.max(1));
    std::thread::scope(|s| {
        for _ in 0..nt {
            std::thread::Builder::new()
                .stack_size(256 << 20)
                .spawn_scoped(s, || loop {
                    let i = next.fetch_add(1, Ordering::Relaxed);
                    if i >= n {
                        break;
                    }
                    let r = f(i, &items[i]);
                    out.lock().unwrap()[i] = Some(r);
                })
                .expect("spawn");
        }
    });
    out.into_inner().unwrap().into_iter().map(|x| x.expect("missing result")).collect()
}
