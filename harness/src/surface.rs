//! C14: core program (SyltAst JSON) + choice function over its surface sites -> Sylt source text.
//!
//! The site keys and the paths are those of spec/SyltSurface.tla (`c@`, `t@`, `l@`, `p@`, `s@`, `b@` + path,
//! `g@`, `o@`, `d@`, `indent`).  The renderer follows a choice function EXACTLY: in strict mode a key that names no site of the
//! program, or an option the site does not have, is an error (never a silent fallback) - which choices are
//! LEGAL Sylt is decided by the specification, not here.  With the empty choice function the text is
//! byte-identical to `printer::print_program(tops, &PrintOpts::default())` (checked by the c14 recorder).

use crate::printer::{dyadic_text, PrintOpts, Printer};
use serde_json::Value;
use std::collections::{BTreeMap, BTreeSet};

pub struct Renderer<'a> {
    ch: &'a BTreeMap<String, u64>,
    strict: bool,
    opts: PrintOpts,
    hints: BTreeMap<i64, String>,
    out: String,
    depth: usize,
    unit: String,
    used: BTreeSet<String>,
    /// SyltSurface!TrivSeqs (emitted by TLC): trivia sequence number -> sequence over "T" (end-of-line comment),
    /// "C" (comment on a line of its own), "B" (blank line)
    triv: &'a [Vec<String>],
    pub errors: Vec<String>,
    /// per kind/option counters of what was actually written (vacuity accounting)
    pub written: BTreeMap<String, u64>,
}

fn s<'v>(v: &'v Value, k: &str) -> &'v str {
    v[k].as_str().unwrap_or_else(|| panic!("surface: missing string field {} in {}", k, v))
}
fn arr<'v>(v: &'v Value, k: &str) -> &'v Vec<Value> {
    v[k].as_array().unwrap_or_else(|| panic!("surface: missing array field {} in {}", k, v))
}
fn b(v: &Value, k: &str) -> bool {
    v[k].as_bool().unwrap_or(false)
}
fn kind(e: &Value) -> &str {
    s(e, "k")
}

fn level(op: &str) -> u8 {
    match op {
        "<=>" => 1,
        "or" => 2,
        "and" => 3,
        "==" | "!=" | "<" | "<=" | ">" | ">=" => 4,
        "+" | "-" => 5,
        "*" | "/" => 6,
        _ => panic!("surface: unknown operator {}", op),
    }
}

// ---- the grammar-required parentheses (SyltSurface: Need*)
fn compound(e: &Value) -> bool {
    matches!(kind(e), "if" | "case" | "fn" | "variant")
}
fn need_operand(e: &Value, p: u8, right: bool) -> bool {
    match kind(e) {
        "bin" => {
            let l = level(s(e, "op"));
            l < p || (right && l == p)
        }
        "un" => p == 6,
        _ => compound(e),
    }
}
fn need_un_operand(e: &Value) -> bool {
    kind(e) == "bin" || compound(e)
}
fn need_arg(e: &Value) -> bool {
    compound(e)
}
fn need_base(e: &Value) -> bool {
    !matches!(kind(e), "var" | "std" | "self" | "call" | "fld" | "idx" | "tuple")
}
fn need_field(e: &Value) -> bool {
    compound(e) && kind(e) != "fn"
}
fn need_arrow_lhs(e: &Value) -> bool {
    matches!(kind(e), "bin" | "un")
        || compound(e)
        || (kind(e) == "int" && e["v"].as_i64().unwrap() < 0)
        || (kind(e) == "float" && e["n"].as_i64().unwrap() < 0)
}
fn wrappable(_e: &Value) -> bool {
    true
}
fn has_fn(e: &Value) -> bool {
    match kind(e) {
        "fn" | "if" | "case" | "blob" => true,
        "bin" => has_fn(&e["l"]) || has_fn(&e["r"]),
        "un" => has_fn(&e["a"]),
        "call" => has_fn(&e["f"]) || arr(e, "args").iter().any(has_fn),
        "tuple" | "list" => arr(e, "es").iter().any(has_fn),
        "fld" | "idx" => has_fn(&e["e"]),
        "variant" => b(e, "has") && has_fn(&e["e"]),
        _ => false,
    }
}

impl<'a> Renderer<'a> {
    pub fn new(ch: &'a BTreeMap<String, u64>, strict: bool, triv: &'a [Vec<String>]) -> Self {
        let w = ch.get("indent").copied().unwrap_or(4);
        let unit = if w == 9 { "\t".to_string() } else { " ".repeat(w as usize) };
        let mut r = Renderer {
            ch,
            strict,
            opts: PrintOpts::default(),
            hints: BTreeMap::new(),
            out: String::new(),
            depth: 0,
            unit,
            used: BTreeSet::new(),
            triv,
            errors: Vec::new(),
            written: BTreeMap::new(),
        };
        if w > 9 {
            r.errors.push(format!("indent {} out of range", w));
        }
        r.used.insert("indent".into());
        *r.written.entry(format!("indent={}", w)).or_insert(0) += 1;
        r
    }

    /// option chosen at site `key` (0 when absent); `n`: number of options the site has
    fn opt(&mut self, key: String, n: u64) -> u64 {
        let v = self.ch.get(&key).copied().unwrap_or(0);
        self.used.insert(key.clone());
        if v >= n {
            self.errors.push(format!("option {} out of range at {}", v, key));
            return 0;
        }
        v
    }
    /// a key that must be absent/0 because the site does not exist in this rendering
    fn void(&mut self, key: String) {
        if self.ch.get(&key).copied().unwrap_or(0) != 0 {
            if self.strict {
                self.errors.push(format!("choice given for a site that does not exist: {}", key));
            }
            self.used.insert(key);
        }
    }
    fn count(&mut self, what: String) {
        *self.written.entry(what).or_insert(0) += 1;
    }

    fn name(&self, id: i64) -> String {
        if let Some(n) = self.hints.get(&id) {
            return n.clone();
        }
        format!("v{}", id)
    }
    fn collect_hints(&mut self, tops: &[Value]) {
        for t in tops {
            if t["k"] == "def" {
                let n = t["n"].as_str().unwrap_or("");
                let id = t["b"].as_i64().unwrap();
                if !n.is_empty() {
                    self.hints.insert(id, n.to_string());
                } else {
                    self.hints.insert(id, format!("g{}", id));
                }
            }
        }
    }
    fn ty(&self, t: &Value) -> String {
        Printer::new(&self.opts).ty(t)
    }
    fn ty_nested(&self, t: &Value) -> String {
        if t["k"] == "tfn" {
            format!("({})", self.ty(t))
        } else {
            self.ty(t)
        }
    }
    fn has_ty(t: &Value) -> bool {
        !t.is_null() && t["k"] != "tnone"
    }
    fn ind_at(&self, d: usize) -> String {
        self.unit.repeat(d)
    }

    // ------------------------------------------------------------ expressions

    /// e at path p with `need` grammar-required parentheses; np: no redundant parentheses allowed here;
    /// inb: the parser skips newlines here (SyltSurface: inb)
    fn expr(&mut self, e: &Value, p: &str, need: bool, np: bool, inb: bool) -> String {
        let pl = if np || !wrappable(e) {
            self.void(format!("p@{}", p));
            0
        } else {
            self.opt(format!("p@{}", p), 3)
        };
        if pl > 0 {
            self.count(format!("p={}", pl));
        }
        let total = pl + need as u64;
        let g = if total > 0 { self.layout_opt(format!("g@{}", p), 5, false, "group") } else { self.void(format!("g@{}", p)); 0 };
        let mut t = self.expr_inner(e, p, inb || total > 0);
        for i in 0..total {
            if i + 1 == total && g != 0 {
                // the outermost pair carries the layout
                let (mask, seq) = self.decode(g);
                let ind2 = self.ind_at(self.depth + 2);
                let ind1 = self.ind_at(self.depth + 1);
                let open = if mask & 1 != 0 { self.gap(&seq, &ind2) } else { String::new() };
                let close = if mask & 4 != 0 { self.gap(&seq, &ind1) } else { String::new() };
                t = format!("({}{}{})", open, t, close);
            } else {
                t = format!("({})", t);
            }
        }
        t
    }

    fn decode(&self, v: u64) -> (u64, Vec<String>) {
        (v % 8, self.triv.get((v / 8) as usize).cloned().unwrap_or_default())
    }
    /// what stands at a gap that holds a line break: [end-of-line comment] newline {comment line | blank line} indentation
    fn gap(&self, seq: &[String], ind: &str) -> String {
        let (eol, lines) = self.trivia(seq, ind);
        format!("{}\n{}{}", eol, lines, ind)
    }
    fn trivia(&self, seq: &[String], ind: &str) -> (String, String) {
        let mut eol = String::new();
        let mut lines = String::new();
        for (i, x) in seq.iter().enumerate() {
            match x.as_str() {
                "T" if i == 0 => eol.push_str(" // end of line"),
                "C" => lines.push_str(&format!("{}// a line of its own\n", ind)),
                "B" => lines.push('\n'),
                other => panic!("surface: bad trivia element {} at {}", other, i),
            }
        }
        (eol, lines)
    }
    /// layout value of a bracket-like site: mask bits within `bits`, trivia number in range; `always`: the construct
    /// is broken over lines anyway, so a value without trivia is void
    fn layout_opt(&mut self, key: String, bits: u64, always: bool, class: &str) -> u64 {
        let v = self.opt(key.clone(), 8 * self.triv.len().max(1) as u64);
        if v == 0 {
            return 0;
        }
        let (mask, t) = (v % 8, v / 8);
        if mask == 0 || mask & !bits != 0 || (always && t == 0) {
            self.errors.push(format!("layout value {} at {} is void for this site", v, key));
            return 0;
        }
        for bit in [1u64, 2, 4] {
            if mask & bit != 0 {
                self.count(format!("gap&{}:{}", bit, class));
            }
        }
        self.count(format!("triv:{}={}", class, t));
        v
    }

    fn block_lines(&mut self, stmts: &[Value], pre: &str, tail_as_ret: bool) -> String {
        let saved = std::mem::take(&mut self.out);
        self.depth += 1;
        let n = stmts.len();
        for (j, st) in stmts.iter().enumerate() {
            let path = format!("{}{}", pre, j + 1);
            self.stmt(st, &path, j + 1 == n && tail_as_ret);
        }
        self.depth -= 1;
        std::mem::replace(&mut self.out, saved)
    }

    /// comma-separated items inside a bracket pair with layout value `v` (mask + 8 * trivia)
    fn brackets(&mut self, open: &str, items: Vec<String>, close: &str, v: u64) -> String {
        if v == 0 || items.is_empty() {
            return format!("{}{}{}", open, items.join(", "), close);
        }
        let (mask, seq) = self.decode(v);
        let ind2 = self.ind_at(self.depth + 2);
        let ind1 = self.ind_at(self.depth + 1);
        let mut t = String::from(open);
        if mask & 1 != 0 {
            t.push_str(&self.gap(&seq, &ind2));
        }
        let n = items.len();
        for (i, it) in items.iter().enumerate() {
            t.push_str(it);
            if i + 1 < n {
                t.push(',');
                if mask & 2 != 0 {
                    t.push_str(&self.gap(&seq, &ind2));
                } else {
                    t.push(' ');
                }
            }
        }
        if mask & 4 != 0 {
            t.push_str(&self.gap(&seq, &ind1));
        }
        t.push_str(close);
        t
    }

    fn bracket_opt(&mut self, p: &str, exists: bool, class: &str) -> u64 {
        let key = format!("b@{}", p);
        if !exists {
            self.void(key);
            return 0;
        }
        self.layout_opt(key, 7, false, class)
    }

    fn items(&mut self, es: &[Value], from: usize, p: &str, inb: bool) -> Vec<String> {
        let mut out = Vec::new();
        for (i, a) in es.iter().enumerate().skip(from) {
            out.push(self.expr(a, &format!("{}.g{}", p, i + 1), need_arg(a), false, inb));
        }
        out
    }

    /// arguments of a prime call: where newlines are skipped anyway they may be broken after the commas (mask 2)
    fn prime_items(&mut self, items: Vec<String>, p: &str, inb: bool) -> String {
        let key = format!("b@{}", p);
        // (the raw choices of the token-model replay give one mask to all bracket sites: void on a prime call)
        if !(inb && items.len() >= 2) || !self.strict {
            self.void(key);
            return items.join(", ");
        }
        let v = self.layout_opt(key, 2, false, "prime");
        if v == 0 {
            return items.join(", ");
        }
        let (_, seq) = self.decode(v);
        let ind2 = self.ind_at(self.depth + 2);
        let sep = format!(",{}", self.gap(&seq, &ind2));
        items.join(&sep)
    }

    fn fn_text(&mut self, e: &Value, p: &str, inb: bool) -> String {
        let kw = if b(e, "pure") { "pu" } else { "fn" };
        let mut ps = Vec::new();
        for prm in arr(e, "params") {
            let id = prm["b"].as_i64().unwrap();
            let name = self.name(id);
            if Self::has_ty(&prm["ty"]) {
                ps.push(format!("{}: {}", name, self.ty_nested(&prm["ty"])));
            } else {
                ps.push(name);
            }
        }
        let void = e["ret"]["k"] == "tvoid";
        let has_do = void || Self::has_ty(&e["ret"]);
        // f@: line breaks inside the signature (only where newlines are skipped): 1 after fn/pu, 2 after each parameter's comma, 4 before `do`
        let bits = 1 | if ps.len() >= 2 { 2 } else { 0 } | if has_do { 4 } else { 0 };
        let sig = if inb { self.layout_opt(format!("f@{}", p), bits, false, "fnsig") } else { self.void(format!("f@{}", p)); 0 };
        let (smask, sseq) = self.decode(sig);
        let ind2 = self.ind_at(self.depth + 2);
        let ind1 = self.ind_at(self.depth + 1);
        let mut head = String::from(kw);
        if smask & 1 != 0 {
            head.push_str(&self.gap(&sseq, &ind2));
        } else if !ps.is_empty() {
            head.push(' ');
        }
        let sep = if smask & 2 != 0 { format!(",{}", self.gap(&sseq, &ind2)) } else { ", ".to_string() };
        head.push_str(&ps.join(&sep));
        if smask & 1 != 0 && ps.is_empty() {
            // `fn <newline> -> ..`: the gap already separates
        }
        let before_do = if smask & 4 != 0 { self.gap(&sseq, &ind1) } else { " ".to_string() };
        let body = arr(e, "body");
        let tail_is_expr = body.last().map(|st| st["k"] == "expr").unwrap_or(false);
        let lead = if smask & 1 != 0 && ps.is_empty() { "" } else { " " };
        if void {
            head.push_str(&format!("{}do", before_do));
        } else if Self::has_ty(&e["ret"]) {
            head.push_str(&format!("{}-> {}{}do", lead, self.ty_nested(&e["ret"]), before_do));
        } else {
            head.push_str(&format!("{}->", lead));
        }
        // h@: trivia at the end of the signature line
        let hv = self.layout_opt(format!("h@{}", p), 1, true, "fnhead");
        let (_, hseq) = self.decode(hv);
        let (heol, hlines) = self.trivia(&hseq, &ind1);
        head.push_str(&heol);
        let use_ret = if !void && tail_is_expr {
            let v = self.opt(format!("t@{}", p), 2);
            self.count(format!("t={}", v));
            v == 1
        } else {
            self.void(format!("t@{}", p));
            false
        };
        let text = self.block_lines(body, &format!("{}.s", p), use_ret);
        format!("{}\n{}{}{}end", head, hlines, text, self.ind_at(self.depth))
    }

    fn call_text(&mut self, e: &Value, p: &str, inb: bool) -> String {
        let args = arr(e, "args");
        let n = args.len();
        let f = &e["f"];
        let nopts: u64 = if n == 0 || (has_fn(f) && has_fn(&args[0])) { 2 } else { 4 };
        let c = self.opt(format!("c@{}", p), nopts);
        self.count(format!("c={}", c));
        let callee = self.expr(f, &format!("{}.f", p), need_base(f), false, inb);
        match c {
            0 => {
                let brk = self.bracket_opt(p, n >= 1, "call");
                let items = self.items(args, 0, p, true);
                format!("{}{}", callee, self.brackets("(", items, ")", brk))
            }
            1 => {
                let items = self.items(args, 0, p, inb);
                if items.is_empty() {
                    self.void(format!("b@{}", p));
                    format!("{}'", callee)
                } else {
                    format!("{}' {}", callee, self.prime_items(items, p, inb))
                }
            }
            2 | 3 => {
                let a1 = &args[0];
                let first = self.expr(a1, &format!("{}.g1", p), need_arrow_lhs(a1) || need_arg(a1), false, inb);
                if c == 2 {
                    let brk = self.bracket_opt(p, n >= 2, "call");
                    let items = self.items(args, 1, p, true);
                    format!("{} -> {}{}", first, callee, self.brackets("(", items, ")", brk))
                } else {
                    let items = self.items(args, 1, p, inb);
                    if items.is_empty() {
                        self.void(format!("b@{}", p));
                        format!("{} -> {}'", first, callee)
                    } else {
                        format!("{} -> {}' {}", first, callee, self.prime_items(items, p, inb))
                    }
                }
            }
            _ => unreachable!(),
        }
    }

    fn expr_inner(&mut self, e: &Value, p: &str, inb: bool) -> String {
        match kind(e) {
            "int" => format!("{}", e["v"].as_i64().unwrap()),
            "float" => dyadic_text(e["n"].as_i64().unwrap(), e["d"].as_u64().unwrap() as u32),
            "str" => format!("\"{}\"", s(e, "v")),
            "bool" => format!("{}", e["v"].as_bool().unwrap()),
            "nil" => "nil".into(),
            "var" => self.name(e["b"].as_i64().unwrap()),
            "std" => s(e, "name").to_string(),
            "self" => "self".into(),
            "bin" => {
                let op = s(e, "op");
                let lv = level(op);
                let o = if inb { self.layout_opt(format!("o@{}", p), 2, false, "op") } else { self.void(format!("o@{}", p)); 0 };
                let l = self.expr(&e["l"], &format!("{}.l", p), need_operand(&e["l"], lv, false), false, inb);
                let r = self.expr(&e["r"], &format!("{}.r", p), need_operand(&e["r"], lv, true), false, inb);
                if o != 0 {
                    let (_, seq) = self.decode(o);
                    let ind2 = self.ind_at(self.depth + 2);
                    format!("{} {}{}{}", l, op, self.gap(&seq, &ind2), r)
                } else {
                    format!("{} {} {}", l, op, r)
                }
            }
            "un" => {
                let op = s(e, "op");
                let t = self.expr(&e["a"], &format!("{}.a", p), need_un_operand(&e["a"]), false, inb);
                if op == "not" {
                    format!("not {}", t)
                } else {
                    format!("-{}", t)
                }
            }
            "if" => {
                let mut text = String::new();
                let arms = arr(e, "arms").clone();
                for (i, arm) in arms.iter().enumerate() {
                    let ap = format!("{}.a{}", p, i + 1);
                    if b(arm, "els") {
                        text.push_str(&format!("{}else\n", self.ind_at(self.depth)));
                    } else {
                        let c = self.expr(&arm["c"], &format!("{}.c", ap), false, false, true);
                        if i == 0 {
                            text.push_str(&format!("if {} do\n", c));
                        } else {
                            text.push_str(&format!("{}elif {} do\n", self.ind_at(self.depth), c));
                        }
                    }
                    let body = self.block_lines(arr(arm, "body"), &format!("{}.s", ap), false);
                    text.push_str(&body);
                }
                text.push_str(&format!("{}end", self.ind_at(self.depth)));
                text
            }
            "case" => {
                let m = self.expr(&e["e"], &format!("{}.e", p), false, false, true);
                let mut text = format!("case {} do\n", m);
                self.depth += 1;
                for (i, arm) in arr(e, "arms").clone().iter().enumerate() {
                    let head = if b(arm, "bind") {
                        format!("{} {} ->", s(arm, "v"), self.name(arm["b"].as_i64().unwrap()))
                    } else {
                        format!("{} ->", s(arm, "v"))
                    };
                    text.push_str(&format!("{}{}\n", self.ind_at(self.depth), head));
                    let body = self.block_lines(arr(arm, "body"), &format!("{}.a{}.s", p, i + 1), false);
                    text.push_str(&body);
                    text.push_str(&format!("{}end\n", self.ind_at(self.depth)));
                }
                if b(e, "hasels") {
                    text.push_str(&format!("{}else\n", self.ind_at(self.depth)));
                    let body = self.block_lines(arr(e, "els"), &format!("{}.x.s", p), false);
                    text.push_str(&body);
                    text.push_str(&format!("{}end\n", self.ind_at(self.depth)));
                }
                self.depth -= 1;
                text.push_str(&format!("{}end", self.ind_at(self.depth)));
                text
            }
            "fn" => self.fn_text(e, p, inb),
            "call" => self.call_text(e, p, inb),
            "tuple" => {
                let es = arr(e, "es");
                if es.len() == 1 {
                    self.bracket_opt(p, false, "tuple");
                    let t = self.expr(&es[0], &format!("{}.g1", p), need_arg(&es[0]), false, true);
                    format!("({},)", t)
                } else {
                    let brk = self.bracket_opt(p, es.len() >= 2, "tuple");
                    let items = self.items(es, 0, p, true);
                    self.brackets("(", items, ")", brk)
                }
            }
            "list" => {
                let es = arr(e, "es");
                let brk = self.bracket_opt(p, !es.is_empty(), "list");
                let items = self.items(es, 0, p, true);
                self.brackets("[", items, "]", brk)
            }
            "blob" => {
                // always written over several lines: the layout value only places trivia at the gaps
                let fields = arr(e, "fields").clone();
                let lay = if fields.is_empty() { self.void(format!("b@{}", p)); 0 } else { self.layout_opt(format!("b@{}", p), 7, true, "blob") };
                let (mask, seq) = self.decode(lay);
                self.depth += 1;
                let ind = self.ind_at(self.depth);
                let (eol, lines) = self.trivia(&seq, &ind);
                let at = |bit: u64| if mask & bit != 0 { (eol.as_str(), lines.as_str()) } else { ("", "") };
                let mut text = format!("{} {{{}\n{}", s(e, "name"), at(1).0, at(1).1);
                let n = fields.len();
                for (i, f) in fields.iter().enumerate() {
                    let v = self.expr(&f["e"], &format!("{}.g{}", p, i + 1), need_field(&f["e"]), false, true);
                    let g = if i + 1 < n { at(2) } else { at(4) };
                    text.push_str(&format!("{}{}: {},{}\n{}", ind, s(f, "f"), v, g.0, g.1));
                }
                self.depth -= 1;
                text.push_str(&format!("{}}}", self.ind_at(self.depth)));
                text
            }
            "fld" => {
                let base = self.expr(&e["e"], &format!("{}.e", p), need_base(&e["e"]), false, inb);
                // keep the tokens apart: `2.n` would lex as the float `2.` (only reachable in illegal raw choices
                // of the token-model replay, where a prime call's last argument ends right before the dot)
                let word: String = base.chars().rev().take_while(|c| c.is_ascii_alphanumeric() || *c == '_').collect();
                let sep = if !word.is_empty() && word.chars().all(|c| c.is_ascii_digit()) { " " } else { "" };
                format!("{}{}.{}", base, sep, s(e, "f"))
            }
            "idx" => {
                let base = self.expr(&e["e"], &format!("{}.e", p), need_base(&e["e"]), false, inb);
                format!("{}[{}]", base, e["i"].as_i64().unwrap())
            }
            "variant" => {
                if b(e, "has") {
                    let pl = self.expr(&e["e"], &format!("{}.e", p), need_arg(&e["e"]), false, inb);
                    format!("{}.{} {}", s(e, "enum"), s(e, "v"), pl)
                } else {
                    format!("{}.{}", s(e, "enum"), s(e, "v"))
                }
            }
            other => panic!("surface: unknown expression kind {}", other),
        }
    }

    // ------------------------------------------------------------ statements

    fn def_text(&mut self, st: &Value, p: &str) -> String {
        let id = st["b"].as_i64().unwrap();
        let name = self.name(id);
        let konst = s(st, "kind") == "const";
        let is_fn = st["e"]["k"] == "fn";
        let annotated = Self::has_ty(&st["ty"]) && !is_fn;
        let value = self.expr(&st["e"], &format!("{}.e", p), false, false, false);
        if annotated {
            format!("{}: {} {} {}", name, self.ty(&st["ty"]), if konst { ":" } else { "=" }, value)
        } else {
            format!("{} {} {}", name, if konst { "::" } else { ":=" }, value)
        }
    }

    fn stmt(&mut self, st: &Value, p: &str, tail_as_ret: bool) {
        let m = self.opt(format!("s@{}", p), 16);
        for bit in [1u64, 2, 4, 8] {
            if m & bit != 0 {
                self.count(format!("s&{}", bit));
            }
        }
        let ind = self.ind_at(self.depth);
        if m & 2 != 0 {
            self.out.push('\n');
        }
        if m & 1 != 0 {
            self.out.push_str(&format!("{}// note \u{e9} before\n", ind));
        }
        let text = match kind(st) {
            "def" => self.def_text(st, p),
            "asg" => {
                let t = &st["t"];
                let target = match kind(t) {
                    "var" => self.name(t["b"].as_i64().unwrap()),
                    "fld" => {
                        // an lvalue path: no surface sites (the grammar wants an identifier first)
                        if !matches!(kind(&t["e"]), "var" | "self") {
                            panic!("surface: assignment target base must be a variable or self");
                        }
                        let base = self.expr(&t["e"], &format!("{}.t", p), false, true, false);
                        format!("{}.{}", base, s(t, "f"))
                    }
                    other => panic!("surface: bad assignment target {}", other),
                };
                let v = self.expr(&st["e"], &format!("{}.e", p), false, false, false);
                format!("{} {} {}", target, s(st, "op"), v)
            }
            "loop" => {
                let c = &st["c"];
                let lit_true = c["k"] == "bool" && c["v"] == true;
                let l = if lit_true {
                    let v = self.opt(format!("l@{}", p), 2);
                    self.count(format!("l={}", v));
                    v
                } else {
                    self.void(format!("l@{}", p));
                    0
                };
                let head = if l == 1 {
                    self.void(format!("p@{}.c", p));
                    "loop do".to_string()
                } else {
                    format!("loop {} do", self.expr(c, &format!("{}.c", p), false, false, false))
                };
                let body = self.block_lines(arr(st, "body"), &format!("{}.s", p), false);
                format!("{}\n{}{}end", head, body, self.ind_at(self.depth))
            }
            "break" => "break".into(),
            "continue" => "continue".into(),
            "ret" => {
                if b(st, "has") {
                    format!("ret {}", self.expr(&st["e"], &format!("{}.e", p), false, false, false))
                } else {
                    "ret".into()
                }
            }
            "block" => {
                let body = self.block_lines(arr(st, "body"), &format!("{}.s", p), false);
                format!("do\n{}{}end", body, self.ind_at(self.depth))
            }
            "expr" => {
                let t = self.expr(&st["e"], &format!("{}.e", p), false, false, false);
                if tail_as_ret {
                    format!("ret {}", t)
                } else {
                    t
                }
            }
            "unreach" => "<!>".into(),
            other => panic!("surface: unknown statement kind {}", other),
        };
        self.out.push_str(&ind);
        self.out.push_str(&text);
        if m & 4 != 0 {
            self.out.push_str(" // trailing");
        }
        self.out.push('\n');
        if m & 8 != 0 {
            self.out.push_str(&format!("\n{}// after\n", ind));
        }
    }

    fn top(&mut self, t: &Value, p: &str) {
        match kind(t) {
            "def" => self.stmt(t, p, false),
            "enum" | "blobdecl" => {
                // always written over several lines: the layout value only places trivia at the gaps
                let is_enum = kind(t) == "enum";
                let items: Vec<String> = if is_enum {
                    arr(t, "variants")
                        .iter()
                        .map(|v| if b(v, "has") { format!("{} {}", s(v, "v"), self.ty(&v["ty"])) } else { s(v, "v").to_string() })
                        .collect()
                } else {
                    arr(t, "fields").iter().map(|f| format!("{}: {}", s(f, "f"), self.ty(&f["ty"]))).collect()
                };
                let lay = if items.is_empty() {
                    self.void(format!("d@{}", p));
                    0
                } else {
                    self.layout_opt(format!("d@{}", p), 7, true, if is_enum { "enum" } else { "blobdecl" })
                };
                let (mask, seq) = self.decode(lay);
                let (eol, lines) = self.trivia(&seq, "    ");
                let at = |bit: u64| if mask & bit != 0 { (eol.as_str(), lines.as_str()) } else { ("", "") };
                let mut text = if is_enum { format!("{} :: enum{}\n{}", s(t, "name"), at(1).0, at(1).1) } else { format!("{} :: blob {{{}\n{}", s(t, "name"), at(1).0, at(1).1) };
                let n = items.len();
                for (i, it) in items.iter().enumerate() {
                    let g = if i + 1 < n { at(2) } else { at(4) };
                    text.push_str(&format!("    {},{}\n{}", it, g.0, g.1));
                }
                text.push_str(if is_enum { "end\n" } else { "}\n" });
                self.out.push_str(&text);
            }
            "fromuse" => {
                let names: Vec<String> = arr(t, "names").iter().map(|n| n.as_str().unwrap().to_string()).collect();
                let lay = self.layout_opt(format!("d@{}", p), 7, false, "fromuse");
                let list = self.brackets("(", names, ")", lay);
                self.out.push_str(&format!("from {} use {}\n", s(t, "path"), list));
            }
            "raw" => {
                self.out.push_str(s(t, "text"));
                self.out.push('\n');
            }
            other => panic!("surface: unknown top-level kind {}", other),
        }
        self.out.push('\n');
    }

    fn finish(mut self) -> Result<(String, BTreeMap<String, u64>), String> {
        if self.strict {
            for k in self.ch.keys() {
                if !self.used.contains(k) {
                    self.errors.push(format!("choice given for a site that does not exist: {}", k));
                }
            }
        }
        if self.errors.is_empty() {
            Ok((std::mem::take(&mut self.out), self.written))
        } else {
            Err(self.errors.join("; "))
        }
    }
}

/// SyltSurface!TrivSeqs as emitted by TLC (JSON array of arrays of "T" / "C" / "B")
pub fn triv_of(v: &Value) -> Vec<Vec<String>> {
    v.as_array()
        .map(|a| a.iter().map(|x| x.as_array().map(|y| y.iter().map(|z| z.as_str().unwrap().to_string()).collect()).unwrap_or_default()).collect())
        .unwrap_or_else(|| vec![vec![]])
}

pub fn choice_of(v: &Value) -> BTreeMap<String, u64> {
    let mut m = BTreeMap::new();
    if let Some(o) = v.as_object() {
        for (k, x) in o {
            m.insert(k.clone(), x.as_u64().unwrap_or_else(|| panic!("surface: non-numeric option at {}", k)));
        }
    }
    m
}

/// Render a whole program; sites of tops[from-1..] may carry choices (1-based `from` as in the specification).
/// Returns the text and the per-option counters, or the list of choices the renderer could not honour.
pub fn render_program(
    tops: &[Value],
    ch: &BTreeMap<String, u64>,
    strict: bool,
    triv: &[Vec<String>],
) -> Result<(String, BTreeMap<String, u64>), String> {
    let mut r = Renderer::new(ch, strict, triv);
    r.collect_hints(tops);
    for (i, t) in tops.iter().enumerate() {
        r.top(t, &format!("t{}", i + 1));
    }
    r.finish()
}

/// Render `start :: fn do <expression statement e at statement path p> end` (token-model replay; not strict:
/// a raw choice may carry a bracket mask for a call that is not written with brackets).
pub fn render_expr_stmt(e: &Value, p: &str, ch: &BTreeMap<String, u64>) -> Result<String, String> {
    let triv: Vec<Vec<String>> = vec![vec![]];
    let mut r = Renderer::new(ch, false, &triv);
    r.depth = 1;
    let t = r.expr(e, &format!("{}.e", p), false, false, false);
    let ind = r.ind_at(1);
    if !r.errors.is_empty() {
        return Err(r.errors.join("; "));
    }
    Ok(format!("start :: fn do\n{}{}\nend\n", ind, t))
}
