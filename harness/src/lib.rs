//! Conformance harness for the sylt-lang verification framework.
//!
//! Everything here talks to sylt through its *public* API only:
//! `sylt_tokenizer::string_to_tokens`, `sylt_parser::tree`,
//! `sylt::compile_with_reader_to_writer`, and the `sylt` binary.
//! Path dependencies make every build use /repo's current working tree.

pub mod astdump;
#[cfg(feature = "lua")]
pub mod luarun;
pub mod pool;
pub mod printer;
pub mod project;
pub mod surface;
pub mod util;

pub use project::{compile, CompileResult, ErrInfo, Project};
