//! Case JSON (the SyltAst convention) -> Sylt source text.
//!
//! Knobs (all default to the plain rendering):
//!   * `annot`   which annotation sites are written (C08),
//!   * `naming`  binder id -> name (C09),
//!   * `surface` call / return / loop / layout sugar choices per site (C14).
//! The printer is part of the trusted base: a wrong rendering shows up as a rejected or
//! differently behaving program, which the checks' vacuity guards surface.

use serde_json::Value;
use std::collections::BTreeMap;

#[derive(Clone, Debug, PartialEq)]
pub enum Annot {
    /// every site that can carry an annotation carries it
    All,
    /// no optional annotation is written
    None,
    /// site k (in printing order) is annotated iff mask[k % len]
    Mask(Vec<bool>),
}

#[derive(Clone, Debug, Default)]
pub struct Surface {
    /// choice per call site (printing order): 0 `f(a, b)`, 1 `f' a, b`, 2 `a -> f(b)`, 3 `a -> f' b`; illegal choices fall back to 0
    pub calls: Vec<u8>,
    /// value-returning function tails: false = trailing expression, true = `ret e`
    pub ret_tail: Vec<bool>,
    /// `loop true do` written as `loop do` where the condition is literally true
    pub loop_do: bool,
    /// redundant parentheses around every k-th expression (0 = none)
    pub extra_parens: u32,
    /// comment lines / blank lines inserted before every k-th statement (0 = none)
    pub comments: u32,
    pub blank_lines: u32,
    /// indentation width
    pub indent: usize,
    /// break lines after `(`, `,`, `[` inside brackets for every k-th bracket (0 = none)
    pub break_brackets: u32,
}

#[derive(Clone, Debug)]
pub struct PrintOpts {
    pub annot: Annot,
    pub naming: BTreeMap<i64, String>,
    pub surface: Surface,
}

impl Default for PrintOpts {
    fn default() -> Self {
        PrintOpts { annot: Annot::All, naming: BTreeMap::new(), surface: Surface { indent: 4, ..Default::default() } }
    }
}

pub struct Printer<'a> {
    opts: &'a PrintOpts,
    hints: BTreeMap<i64, String>,
    out: String,
    depth: usize,
    annot_site: usize,
    call_site: usize,
    tail_site: usize,
    expr_count: u32,
    stmt_count: u32,
    bracket_count: u32,
    /// number of annotation sites encountered (reported to the caller)
    pub n_annot_sites: usize,
    pub n_call_sites: usize,
    pub n_tail_sites: usize,
}

fn s<'v>(v: &'v Value, k: &str) -> &'v str {
    v[k].as_str().unwrap_or_else(|| panic!("printer: missing string field {} in {}", k, v))
}
fn arr<'v>(v: &'v Value, k: &str) -> &'v Vec<Value> {
    v[k].as_array().unwrap_or_else(|| panic!("printer: missing array field {} in {}", k, v))
}
fn b(v: &Value, k: &str) -> bool {
    v[k].as_bool().unwrap_or(false)
}

fn level(op: &str) -> u8 {
    match op {
        "<=>" => 1,
        "or" => 2,
        "and" => 3,
        "==" | "!=" | "<" | "<=" | ">" | ">=" => 4,
        "+" | "-" => 5,
        "*" | "/" => 6,
        _ => panic!("printer: unknown operator {}", op),
    }
}

/// exact decimal text of n / 2^d (d <= 20)
pub fn dyadic_text(n: i64, d: u32) -> String {
    let neg = n < 0;
    let mut num = (n.unsigned_abs() as u128) * 5u128.pow(d);
    let scale = 10u128.pow(d);
    let int = num / scale;
    num %= scale;
    let mut frac = format!("{:0width$}", num, width = d as usize);
    while frac.ends_with('0') {
        frac.pop();
    }
    if frac.is_empty() {
        frac.push('0');
    }
    format!("{}{}.{}", if neg { "-" } else { "" }, int, frac)
}

/// exact decimal text of the integer n * 2^e
pub fn pow2_multiple_text(n: i64, e: u32) -> String {
    // little-endian base 10^9 limbs
    let mut limbs: Vec<u64> = Vec::new();
    let mut m = n.unsigned_abs();
    while m > 0 {
        limbs.push(m % 1_000_000_000);
        m /= 1_000_000_000;
    }
    for _ in 0..e {
        let mut carry = 0u64;
        for l in limbs.iter_mut() {
            let t = *l * 2 + carry;
            *l = t % 1_000_000_000;
            carry = t / 1_000_000_000;
        }
        if carry > 0 {
            limbs.push(carry);
        }
    }
    let mut text = String::new();
    if n < 0 {
        text.push('-');
    }
    match limbs.last() {
        None => text.push('0'),
        Some(top) => {
            text.push_str(&format!("{}", top));
            for l in limbs.iter().rev().skip(1) {
                text.push_str(&format!("{:09}", l));
            }
        }
    }
    text
}

impl<'a> Printer<'a> {
    pub fn new(opts: &'a PrintOpts) -> Self {
        Printer {
            opts,
            hints: BTreeMap::new(),
            out: String::new(),
            depth: 0,
            annot_site: 0,
            call_site: 0,
            tail_site: 0,
            expr_count: 0,
            stmt_count: 0,
            bracket_count: 0,
            n_annot_sites: 0,
            n_call_sites: 0,
            n_tail_sites: 0,
        }
    }

    fn name(&self, id: i64) -> String {
        if let Some(n) = self.opts.naming.get(&id) {
            return n.clone();
        }
        if let Some(n) = self.hints.get(&id) {
            return n.clone();
        }
        format!("v{}", id)
    }

    fn collect_hints(&mut self, tops: &[Value]) {
        for t in tops {
            if t["k"] == "def" {
                let n = t["n"].as_str().unwrap_or("");
                let id = t["b"].as_i64().unwrap();
                if !n.is_empty() {
                    self.hints.insert(id, n.to_string());
                } else {
                    self.hints.insert(id, format!("g{}", id));
                }
            }
        }
    }

    fn annotate(&mut self) -> bool {
        let k = self.annot_site;
        self.annot_site += 1;
        self.n_annot_sites += 1;
        match &self.opts.annot {
            Annot::All => true,
            Annot::None => false,
            Annot::Mask(m) => !m.is_empty() && m[k % m.len()],
        }
    }

    fn ind(&self) -> String {
        " ".repeat(self.depth * self.opts.surface.indent.max(1))
    }

    fn line(&mut self, text: &str) {
        let ind = self.ind();
        for (i, l) in text.split('\n').enumerate() {
            if i > 0 {
                self.out.push('\n');
            }
            if !l.is_empty() {
                self.out.push_str(&ind);
                self.out.push_str(l);
            }
        }
        self.out.push('\n');
    }

    pub fn ty(&self, t: &Value) -> String {
        match s(t, "k") {
            "tint" => "int".into(),
            "tfloat" => "float".into(),
            "tstr" => "str".into(),
            "tbool" => "bool".into(),
            "tvoid" => "void".into(),
            "tname" => s(t, "n").to_string(),
            "ttuple" => {
                let es: Vec<String> = arr(t, "es").iter().map(|x| self.ty(x)).collect();
                if es.len() == 1 {
                    format!("({},)", es[0])
                } else {
                    format!("({})", es.join(", "))
                }
            }
            "tlist" => format!("[{}]", self.ty(&t["e"])),
            // a generic type variable `*A` (C03 arrival universe); additive node kind
            "tgen" => format!("*{}", s(t, "n")),
            // the unknown type `*` (C08 annotation-type families); additive node kind
            "tany" => "*".into(),
            // a generic type applied to arguments `Box(B)` (C11 type-order family); additive node kind
            "tapp" => {
                let args: Vec<String> = arr(t, "args").iter().map(|x| self.ty(x)).collect();
                format!("{}({})", s(t, "n"), args.join(", "))
            }
            "tfn" => {
                let ps: Vec<String> = arr(t, "ps").iter().map(|x| self.ty_nested(x)).collect();
                let pure = b(t, "pure");
                let kw = if pure { "pu" } else { "fn" };
                if ps.is_empty() {
                    format!("{} -> {}", kw, self.ty_nested(&t["r"]))
                } else {
                    format!("{} {} -> {}", kw, ps.join(", "), self.ty_nested(&t["r"]))
                }
            }
            other => panic!("printer: cannot print type {}", other),
        }
    }

    fn ty_nested(&self, t: &Value) -> String {
        if t["k"] == "tfn" {
            format!("({})", self.ty(t))
        } else {
            self.ty(t)
        }
    }

    fn has_ty(t: &Value) -> bool {
        !t.is_null() && t["k"] != "tnone"
    }

    // ---------------------------------------------------------------- expressions

    /// text of e with no surrounding parentheses; multi-line constructs use the current depth for inner lines
    fn expr(&mut self, e: &Value) -> String {
        self.expr_count += 1;
        let wrap = self.opts.surface.extra_parens > 0 && self.expr_count % self.opts.surface.extra_parens == 0;
        let t = self.expr_inner(e);
        if wrap && Self::wrappable(e) {
            format!("({})", t)
        } else {
            t
        }
    }

    fn wrappable(e: &Value) -> bool {
        // a parenthesised int directly before `[`/`.` or a parenthesised callee changes nothing semantically,
        // but keep it simple: wrap anything except statements-as-expressions that must stay bare
        !matches!(s(e, "k"), "std" | "fn")
    }

    fn is_compound(e: &Value) -> bool {
        matches!(s(e, "k"), "if" | "case" | "fn" | "variant")
    }

    /// e as an operand of a binary operator of level p on side `right`
    fn operand(&mut self, e: &Value, p: u8, right: bool) -> String {
        let t = self.expr(e);
        let k = s(e, "k");
        let need = match k {
            "bin" => {
                let l = level(s(e, "op"));
                l < p || (right && l == p)
            }
            "un" => p == 6,
            _ => Self::is_compound(e),
        };
        if need && !Self::balanced_outer(&t) {
            format!("({})", t)
        } else {
            t
        }
    }

    /// does the text start with '(' that closes at the very end?
    fn balanced_outer(t: &str) -> bool {
        if !t.starts_with('(') || !t.ends_with(')') {
            return false;
        }
        let mut d = 0i32;
        let n = t.chars().count();
        for (i, c) in t.chars().enumerate() {
            if c == '(' {
                d += 1;
            } else if c == ')' {
                d -= 1;
                if d == 0 && i + 1 < n {
                    return false;
                }
            }
        }
        true
    }

    fn paren_if(&mut self, e: &Value, need: bool) -> String {
        let t = self.expr(e);
        if need && !Self::balanced_outer(&t) {
            format!("({})", t)
        } else {
            t
        }
    }

    /// e as an argument / collection element / field initialiser
    fn arg(&mut self, e: &Value) -> String {
        let need = Self::is_compound(e);
        self.paren_if(e, need)
    }

    /// e as the base of a postfix form (call, field, index)
    fn base(&mut self, e: &Value) -> String {
        let need = !matches!(s(e, "k"), "var" | "qvar" | "std" | "self" | "call" | "fld" | "idx");
        self.paren_if(e, need)
    }

    fn block_lines(&mut self, stmts: &[Value], value_tail: Option<bool>) -> String {
        // prints statements one level deeper, returns text (without trailing newline)
        let saved = std::mem::take(&mut self.out);
        self.depth += 1;
        let n = stmts.len();
        for (i, st) in stmts.iter().enumerate() {
            let is_last = i + 1 == n;
            self.stmt(st, is_last && value_tail.unwrap_or(false));
        }
        self.depth -= 1;
        let body = std::mem::replace(&mut self.out, saved);
        body
    }

    fn brackets(&mut self, open: &str, items: Vec<String>, close: &str) -> String {
        self.bracket_count += 1;
        let brk = self.opts.surface.break_brackets > 0 && self.bracket_count % self.opts.surface.break_brackets == 0;
        if brk && !items.is_empty() {
            let ind = " ".repeat((self.depth + 2) * self.opts.surface.indent.max(1));
            let inner: Vec<String> = items.iter().map(|x| format!("{}{}", ind, x)).collect();
            format!("{}\n{}\n{}{}", open, inner.join(",\n"), " ".repeat((self.depth + 1) * self.opts.surface.indent.max(1)), close)
        } else {
            format!("{}{}{}", open, items.join(", "), close)
        }
    }

    fn fn_text(&mut self, e: &Value) -> String {
        let kw = if b(e, "pure") { "pu" } else { "fn" };
        let mut ps = Vec::new();
        for p in arr(e, "params") {
            let id = p["b"].as_i64().unwrap();
            let name = self.name(id);
            // parameters of function type must keep their annotation: the property only makes
            // parameters of non-function type optional
            let is_fn_ty = p["ty"]["k"] == "tfn";
            // optional field `keep` (C08 families): the annotation is needed to type a call made through the
            // parameter in the body, so it is no site either; absent = false
            let keep = b(p, "keep");
            if Self::has_ty(&p["ty"]) && (is_fn_ty || keep || self.annotate()) {
                ps.push(format!("{}: {}", name, self.ty_nested(&p["ty"])));
            } else {
                ps.push(name);
            }
        }
        let void = e["ret"]["k"] == "tvoid";
        let mut head = String::from(kw);
        if !ps.is_empty() {
            head.push(' ');
            head.push_str(&ps.join(", "));
        }
        let body = arr(e, "body");
        let tail_is_expr = body.last().map(|st| st["k"] == "expr").unwrap_or(false);
        if void {
            head.push_str(" do");
        } else if Self::has_ty(&e["ret"]) && self.annotate() {
            head.push_str(&format!(" -> {} do", self.ty_nested(&e["ret"])));
        } else {
            head.push_str(" ->");
        }
        let use_ret = if !void && tail_is_expr {
            let k = self.tail_site;
            self.tail_site += 1;
            self.n_tail_sites += 1;
            self.opts.surface.ret_tail.get(k % self.opts.surface.ret_tail.len().max(1)).copied().unwrap_or(false)
        } else {
            false
        };
        let text = self.block_lines(body, Some(use_ret));
        format!("{}\n{}{}end", head, text, self.ind_at(self.depth))
    }

    fn ind_at(&self, d: usize) -> String {
        " ".repeat(d * self.opts.surface.indent.max(1))
    }

    fn call_text(&mut self, e: &Value) -> String {
        let k = self.call_site;
        self.call_site += 1;
        self.n_call_sites += 1;
        let choice = if self.opts.surface.calls.is_empty() { 0 } else { self.opts.surface.calls[k % self.opts.surface.calls.len()] };
        // a call node may pin its own surface form (optional field `form`, same numbering); absent = the knob above
        let choice = e.get("form").and_then(|x| x.as_u64()).map(|x| x as u8).unwrap_or(choice);
        let f = self.base(&e["f"]);
        let args: Vec<String> = arr(e, "args").iter().map(|a| self.arg(a)).collect();
        // sugar is only offered where the callee is a name or a field path; legality of the
        // *position* (nothing may follow a prime/arrow call) is the caller's business: see C14
        let simple_callee = matches!(s(&e["f"], "k"), "var" | "std") || (e["f"]["k"] == "fld");
        match choice {
            1 if simple_callee => {
                if args.is_empty() {
                    format!("{}'", f)
                } else {
                    format!("{}' {}", f, args.join(", "))
                }
            }
            2 if simple_callee && !args.is_empty() => {
                let first = self.wrap_arrow_lhs(&arr(e, "args")[0], &args[0]);
                format!("{} -> {}({})", first, f, args[1..].join(", "))
            }
            3 if simple_callee && !args.is_empty() => {
                let first = self.wrap_arrow_lhs(&arr(e, "args")[0], &args[0]);
                if args.len() == 1 {
                    format!("{} -> {}'", first, f)
                } else {
                    format!("{} -> {}' {}", first, f, args[1..].join(", "))
                }
            }
            _ => self.brackets(&format!("{}(", f), args, ")"),
        }
    }

    fn wrap_arrow_lhs(&self, e: &Value, text: &str) -> String {
        // `->` binds tightest: any operator expression on its left must be parenthesised
        if matches!(s(e, "k"), "bin" | "un") && !Self::balanced_outer(text) {
            format!("({})", text)
        } else {
            text.to_string()
        }
    }

    fn expr_inner(&mut self, e: &Value) -> String {
        match s(e, "k") {
            "int" => format!("{}", e["v"].as_i64().unwrap()),
            // literal text written as is (C19: numbers beyond what the case JSON / the 32-bit model can carry)
            "raw" => s(e, "text").to_string(),
            "float" => dyadic_text(e["n"].as_i64().unwrap(), e["d"].as_u64().unwrap() as u32),
            // the float n * 2^e (e >= 1) written out in full: `<decimal integer>.0` (C01 numeric limits); additive node kind
            "fbig" => format!("{}.0", pow2_multiple_text(e["n"].as_i64().unwrap(), e["e"].as_u64().unwrap() as u32)),
            // redundant parentheses that the case asks for (C01: a parenthesised method literal in a blob field); additive node kind
            "paren" => format!("({})", self.expr(&e["e"])),
            "str" => format!("\"{}\"", s(e, "v")),
            "bool" => format!("{}", e["v"].as_bool().unwrap()),
            "nil" => "nil".into(),
            "var" => self.name(e["b"].as_i64().unwrap()),
            // a global of another module by qualified name (C09): `ns.<name of binder b>`
            "qvar" => format!("{}.{}", s(e, "ns"), self.name(e["b"].as_i64().unwrap())),
            "std" => s(e, "name").to_string(),
            "self" => "self".into(),
            "bin" => {
                let op = s(e, "op");
                let p = level(op);
                let l = self.operand(&e["l"], p, false);
                let r = self.operand(&e["r"], p, true);
                format!("{} {} {}", l, op, r)
            }
            "un" => {
                let op = s(e, "op");
                let a = &e["a"];
                let need = a["k"] == "bin" || Self::is_compound(a);
                let t = self.paren_if(a, need);
                if op == "not" {
                    format!("not {}", t)
                } else {
                    format!("-{}", t)
                }
            }
            "if" => {
                let mut text = String::new();
                let arms = arr(e, "arms").clone();
                for (i, arm) in arms.iter().enumerate() {
                    if b(arm, "els") {
                        text.push_str(&format!("{}else\n", self.ind_at(self.depth)));
                    } else {
                        let c = self.expr(&arm["c"]);
                        if i == 0 {
                            text.push_str(&format!("if {} do\n", c));
                        } else {
                            text.push_str(&format!("{}elif {} do\n", self.ind_at(self.depth), c));
                        }
                    }
                    let body = self.block_lines(arr(arm, "body"), Some(false));
                    text.push_str(&body);
                }
                text.push_str(&format!("{}end", self.ind_at(self.depth)));
                text
            }
            "case" => {
                let m = self.expr(&e["e"]);
                let mut text = format!("case {} do\n", m);
                self.depth += 1;
                for arm in arr(e, "arms").clone().iter() {
                    let head = if b(arm, "bind") {
                        format!("{} {} ->", s(arm, "v"), self.name(arm["b"].as_i64().unwrap()))
                    } else {
                        format!("{} ->", s(arm, "v"))
                    };
                    text.push_str(&format!("{}{}\n", self.ind_at(self.depth), head));
                    let body = self.block_lines(arr(arm, "body"), Some(false));
                    text.push_str(&body);
                    text.push_str(&format!("{}end\n", self.ind_at(self.depth)));
                }
                if b(e, "hasels") {
                    text.push_str(&format!("{}else\n", self.ind_at(self.depth)));
                    let body = self.block_lines(arr(e, "els"), Some(false));
                    text.push_str(&body);
                    text.push_str(&format!("{}end\n", self.ind_at(self.depth)));
                }
                self.depth -= 1;
                text.push_str(&format!("{}end", self.ind_at(self.depth)));
                text
            }
            "fn" => self.fn_text(e),
            "call" => self.call_text(e),
            "tuple" => {
                let es: Vec<String> = arr(e, "es").iter().map(|a| self.arg(a)).collect();
                if es.len() == 1 {
                    format!("({},)", es[0])
                } else {
                    self.brackets("(", es, ")")
                }
            }
            "list" => {
                let es: Vec<String> = arr(e, "es").iter().map(|a| self.arg(a)).collect();
                self.brackets("[", es, "]")
            }
            "blob" => {
                let mut text = format!("{} {{\n", s(e, "name"));
                self.depth += 1;
                for f in arr(e, "fields").clone().iter() {
                    let v = self.arg_keep_fn(&f["e"]);
                    text.push_str(&format!("{}{}: {},\n", self.ind_at(self.depth), s(f, "f"), v));
                }
                self.depth -= 1;
                text.push_str(&format!("{}}}", self.ind_at(self.depth)));
                text
            }
            "fld" => format!("{}.{}", self.base(&e["e"]), s(e, "f")),
            "idx" => format!("{}[{}]", self.base(&e["e"]), e["i"].as_i64().unwrap()),
            "variant" => {
                if b(e, "has") {
                    let p = self.arg(&e["e"]);
                    format!("{}.{} {}", s(e, "enum"), s(e, "v"), p)
                } else {
                    format!("{}.{}", s(e, "enum"), s(e, "v"))
                }
            }
            other => panic!("printer: unknown expression kind {}", other),
        }
    }

    /// blob field initialisers: a function literal must stay a bare `fn` (only then `self` is bound)
    fn arg_keep_fn(&mut self, e: &Value) -> String {
        if e["k"] == "fn" {
            self.expr(e)
        } else {
            self.arg(e)
        }
    }

    // ---------------------------------------------------------------- statements

    fn def_text(&mut self, st: &Value) -> String {
        let id = st["b"].as_i64().unwrap();
        let name = self.name(id);
        let konst = s(st, "kind") == "const";
        let is_fn = st["e"]["k"] == "fn";
        // annotation sites: variable definitions of non-function values
        // (optional field `tyfn` (C09 declaration kinds): a function definition that keeps its written type; absent = false)
        let annotated = Self::has_ty(&st["ty"]) && (!is_fn || b(st, "tyfn")) && self.annotate();
        let value = self.expr(&st["e"]);
        if annotated {
            format!("{}: {} {} {}", name, self.ty(&st["ty"]), if konst { ":" } else { "=" }, value)
        } else {
            format!("{} {} {}", name, if konst { "::" } else { ":=" }, value)
        }
    }

    fn stmt(&mut self, st: &Value, tail_as_ret: bool) {
        self.stmt_count += 1;
        let sf = &self.opts.surface;
        if sf.blank_lines > 0 && self.stmt_count % sf.blank_lines == 0 {
            self.out.push('\n');
        }
        if sf.comments > 0 && self.stmt_count % sf.comments == 0 {
            let c = format!("// note {} é ü", self.stmt_count);
            self.line(&c);
        }
        let text = match s(st, "k") {
            "def" => self.def_text(st),
            "asg" => {
                let t = &st["t"];
                let target = match s(t, "k") {
                    "var" => self.name(t["b"].as_i64().unwrap()),
                    "fld" => format!("{}.{}", self.base(&t["e"]), s(t, "f")),
                    "idx" => format!("{}[{}]", self.base(&t["e"]), t["i"].as_i64().unwrap()),
                    other => panic!("printer: bad assignment target {}", other),
                };
                let v = self.expr(&st["e"]);
                format!("{} {} {}", target, s(st, "op"), v)
            }
            "loop" => {
                let c = &st["c"];
                // optional field `form` (C05 function-flavour family): "nocond" = `loop do .. end` whatever the condition,
                // "bare" = `loop <c> <statement>` without a do-block (body of exactly one statement); absent / other = plain
                let form = st.get("form").and_then(|x| x.as_str()).unwrap_or("");
                if form == "bare" && arr(st, "body").len() == 1 {
                    let ctext = self.expr(c);
                    let body = self.block_lines(arr(st, "body"), None);
                    format!("loop {} {}", ctext, body.trim())
                } else {
                    let head = if form == "nocond" || (self.opts.surface.loop_do && c["k"] == "bool" && c["v"] == true) {
                        "loop do".to_string()
                    } else {
                        format!("loop {} do", self.expr(c))
                    };
                    let body = self.block_lines(arr(st, "body"), None);
                    format!("{}\n{}{}end", head, body, self.ind_at(self.depth))
                }
            }
            "break" => "break".into(),
            "continue" => "continue".into(),
            "ret" => {
                if b(st, "has") {
                    format!("ret {}", self.expr(&st["e"]))
                } else {
                    "ret".into()
                }
            }
            "block" => {
                let body = self.block_lines(arr(st, "body"), None);
                format!("do\n{}{}end", body, self.ind_at(self.depth))
            }
            "expr" => {
                let t = self.expr(&st["e"]);
                if tail_as_ret {
                    format!("ret {}", t)
                } else {
                    t
                }
            }
            "unreach" => "<!>".into(),
            other => panic!("printer: unknown statement kind {}", other),
        };
        // multi-line constructs carry their own inner indentation (absolute); only the first line is indented here
        let ind = self.ind();
        self.out.push_str(&ind);
        self.out.push_str(&text);
        self.out.push('\n');
    }

    /// `(*T, *U)` for a declaration with the optional field `gen: ["T", "U"]`; absent or empty = not generic
    fn gen_params(t: &Value) -> String {
        match t.get("gen").and_then(|g| g.as_array()) {
            Some(g) if !g.is_empty() => {
                format!("({})", g.iter().map(|x| format!("*{}", x.as_str().unwrap_or("T"))).collect::<Vec<_>>().join(", "))
            }
            _ => String::new(),
        }
    }

    fn top(&mut self, t: &Value) {
        match s(t, "k") {
            "def" => self.stmt(t, false),
            "enum" => {
                let mut text = format!("{} :: enum{}\n", s(t, "name"), Self::gen_params(t));
                for v in arr(t, "variants") {
                    if b(v, "has") {
                        text.push_str(&format!("    {} {},\n", s(v, "v"), self.ty(&v["ty"])));
                    } else {
                        text.push_str(&format!("    {},\n", s(v, "v")));
                    }
                }
                text.push_str("end\n");
                self.out.push_str(&text);
            }
            "blobdecl" => {
                let mut text = format!("{} :: blob{} {{\n", s(t, "name"), Self::gen_params(t));
                for f in arr(t, "fields") {
                    text.push_str(&format!("    {}: {},\n", s(f, "f"), self.ty(&f["ty"])));
                }
                text.push_str("}\n");
                self.out.push_str(&text);
            }
            // `use <module>` (C09, two-file programs)
            "use" => {
                self.out.push_str(&format!("use {}\n", s(t, "name")));
            }
            "raw" => {
                self.out.push_str(s(t, "text"));
                self.out.push('\n');
            }
            other => panic!("printer: unknown top-level kind {}", other),
        }
        self.out.push('\n');
    }

    pub fn program(mut self, tops: &[Value]) -> (String, Printer<'a>) {
        self.collect_hints(tops);
        for t in tops {
            self.top(t);
        }
        let text = std::mem::take(&mut self.out);
        (text, self)
    }
}

/// Print a whole program (sequence of top-level nodes) with the given options.
pub fn print_program(tops: &[Value], opts: &PrintOpts) -> String {
    Printer::new(opts).program(tops).0
}

/// Print and also report the number of annotation / call / tail sites.
pub fn print_program_sites(tops: &[Value], opts: &PrintOpts) -> (String, usize, usize, usize) {
    let (t, p) = Printer::new(opts).program(tops);
    (t, p.n_annot_sites, p.n_call_sites, p.n_tail_sites)
}
