use std::time::Instant;
fn main() {
    let n = 500;
    for mb in [1usize, 64, 256, 448, 1024] {
        let t = Instant::now();
        for _ in 0..n {
            std::thread::Builder::new().stack_size(mb << 20).spawn(|| 1).unwrap().join().unwrap();
        }
        println!("spawn {} MB: {:.0} us", mb, t.elapsed().as_secs_f64() * 1e6 / n as f64);
    }
    let c = minilua::load("local x = 1").unwrap();
    let t = Instant::now();
    for _ in 0..n {
        minilua::run(&c, &minilua::RunOptions::default());
    }
    println!("trivial run: {:.0} us", t.elapsed().as_secs_f64() * 1e6 / n as f64);
}
