//! Times load + run of the Sylt preamble (plus a tiny program).
use std::time::Instant;
fn main() {
    let path = std::env::args().nth(1).unwrap_or_else(|| "/repo/sylt-compiler/src/preamble.lua".to_string());
    let mut src = std::fs::read_to_string(&path).expect("read");
    src.push_str("\nlocal V1 = __LIST({1,2,3})\nV2 = tostring(V1)\nassert(V2 == '[1, 2, 3]', 'Assert failed!')\n");
    let n = 500;
    let t = Instant::now();
    for _ in 0..n {
        let c = minilua::load(&src).expect("load");
        std::hint::black_box(&c);
    }
    let load_us = t.elapsed().as_secs_f64() * 1e6 / n as f64;
    let c = minilua::load(&src).unwrap();
    let t = Instant::now();
    for _ in 0..n {
        let r = minilua::run(&c, &minilua::RunOptions::default());
        assert_eq!(r.outcome, minilua::Outcome::Done);
    }
    let run_us = t.elapsed().as_secs_f64() * 1e6 / n as f64;
    println!("load: {:.0} us/iter, run: {:.0} us/iter, total {:.0} us ({} iterations)", load_us, run_us, load_us + run_us, n);
}
