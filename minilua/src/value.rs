//! Run-time values.
use crate::ast::Program;
use crate::interp::Interp;
use crate::table::Table;
use crate::ErrClass;
use std::cell::{Cell, RefCell};
use std::rc::Rc;

/// Immutable byte string with a lazily computed hash.
pub struct LStr {
    pub b: Box<[u8]>,
    hash: Cell<u32>,
}

impl LStr {
    pub fn new(b: &[u8]) -> Rc<LStr> {
        Rc::new(LStr { b: b.into(), hash: Cell::new(0) })
    }
    pub fn from_vec(v: Vec<u8>) -> Rc<LStr> {
        Rc::new(LStr { b: v.into_boxed_slice(), hash: Cell::new(0) })
    }
    pub fn hash(&self) -> u32 {
        let h = self.hash.get();
        if h != 0 {
            return h;
        }
        // FNV-1a, sampled for long strings like Lua does
        let mut h: u32 = 0x811c9dc5 ^ (self.b.len() as u32);
        let step = (self.b.len() >> 5) + 1;
        let mut i = self.b.len();
        while i >= step {
            h ^= self.b[i - 1] as u32;
            h = h.wrapping_mul(0x01000193);
            i -= step;
        }
        if h == 0 {
            h = 1;
        }
        self.hash.set(h);
        h
    }
    pub fn to_str_lossy(&self) -> String {
        String::from_utf8_lossy(&self.b).into_owned()
    }
}

pub type TableRef = Rc<RefCell<Table>>;
pub type CellRef = Rc<RefCell<Value>>;

pub struct Closure {
    pub proto: u32,
    pub upvals: Box<[CellRef]>,
}

pub type NativeFnPtr = fn(&mut Interp, &Program, &Native, Vec<Value>) -> LResult<Vec<Value>>;

pub struct Native {
    pub name: &'static str,
    pub f: NativeFnPtr,
    /// state for native closures (e.g. the gmatch iterator)
    pub up: RefCell<Vec<Value>>,
}

#[derive(Clone)]
pub enum Value {
    Nil,
    Bool(bool),
    Int(i64),
    Flt(f64),
    Str(Rc<LStr>),
    Table(TableRef),
    Func(Rc<Closure>),
    Native(Rc<Native>),
}

impl Default for Value {
    fn default() -> Self {
        Value::Nil
    }
}

impl Value {
    pub fn str(b: &[u8]) -> Value {
        Value::Str(LStr::new(b))
    }
    pub fn string(s: String) -> Value {
        Value::Str(LStr::from_vec(s.into_bytes()))
    }
    pub fn bytes(v: Vec<u8>) -> Value {
        Value::Str(LStr::from_vec(v))
    }
    #[inline]
    pub fn truthy(&self) -> bool {
        !matches!(self, Value::Nil | Value::Bool(false))
    }
    #[inline]
    pub fn is_nil(&self) -> bool {
        matches!(self, Value::Nil)
    }
    pub fn type_name(&self) -> &'static str {
        match self {
            Value::Nil => "nil",
            Value::Bool(_) => "boolean",
            Value::Int(_) | Value::Flt(_) => "number",
            Value::Str(_) => "string",
            Value::Table(_) => "table",
            Value::Func(_) | Value::Native(_) => "function",
        }
    }
    /// Primitive (raw) equality: numbers compare mathematically, strings by
    /// content, everything else by identity.
    pub fn raw_eq(&self, o: &Value) -> bool {
        match (self, o) {
            (Value::Nil, Value::Nil) => true,
            (Value::Bool(a), Value::Bool(b)) => a == b,
            (Value::Int(a), Value::Int(b)) => a == b,
            (Value::Flt(a), Value::Flt(b)) => a == b,
            (Value::Int(a), Value::Flt(b)) | (Value::Flt(b), Value::Int(a)) => int_eq_float(*a, *b),
            (Value::Str(a), Value::Str(b)) => Rc::ptr_eq(a, b) || a.b == b.b,
            (Value::Table(a), Value::Table(b)) => Rc::ptr_eq(a, b),
            (Value::Func(a), Value::Func(b)) => Rc::ptr_eq(a, b),
            (Value::Native(a), Value::Native(b)) => Rc::ptr_eq(a, b),
            _ => false,
        }
    }
}

/// Exact comparison `i == f`.
pub fn int_eq_float(i: i64, f: f64) -> bool {
    match crate::numfmt::float_to_int(f) {
        Some(fi) => fi == i,
        None => false,
    }
}

pub enum LuaError {
    /// A Lua error (catchable by pcall).
    Error { value: Value, class: ErrClass, line: u32 },
    /// The step budget ran out (not catchable).
    StepLimit,
    /// The program used something this interpreter does not implement (not catchable).
    Unsupported(String),
}

pub type LErr = Box<LuaError>;
pub type LResult<T> = Result<T, LErr>;

pub fn unsupported<T>(what: &str) -> LResult<T> {
    Err(Box::new(LuaError::Unsupported(what.to_string())))
}
