//! Statement execution.
use crate::arith::*;
use crate::ast::*;
use crate::interp::*;
use crate::numfmt::float_to_int;
use crate::value::*;
use crate::{ErrClass, Event};

impl Interp {
    #[inline]
    pub fn set_local(&mut self, fr: &Frame, s: u16, v: Value) {
        match &mut self.stack[fr.base + s as usize] {
            Slot::Val(x) => *x = v,
            Slot::Cell(c) => *c.borrow_mut() = v,
        }
    }

    /// (Re)declare a local: always a fresh variable.
    #[inline]
    fn declare_local(&mut self, fr: &Frame, s: u16, v: Value) {
        self.stack[fr.base + s as usize] = Slot::Val(v);
    }

    pub fn exec_block(&mut self, p: &Program, fr: &Frame, b: &Block) -> LResult<Flow> {
        let n = b.stmts.len();
        let mut i = 0;
        while i < n {
            match self.exec_stmt(p, fr, &b.stmts[i])? {
                Flow::Normal => i += 1,
                Flow::Goto(l) => match b.labels.iter().find(|x| x.0 == l) {
                    Some(&(_, at)) => {
                        self.step()?;
                        i = at as usize;
                    }
                    None => return Ok(Flow::Goto(l)),
                },
                other => return Ok(other),
            }
        }
        Ok(Flow::Normal)
    }

    fn set_global(&mut self, p: &Program, fr: &Frame, k: KId, v: Value, line: u32) -> LResult<()> {
        if self.record && p.is_vname[k as usize] {
            self.events.push(Event::GlobalWrite { act: fr.act, name: p.const_str(k) });
        }
        let key = self.kstr[k as usize].clone();
        let has_meta = self.globals.borrow().meta.is_some();
        if has_meta {
            let g = Value::Table(self.globals.clone());
            return self.set_index(p, &g, key, v, line);
        }
        self.globals.borrow_mut().set(key, v).map_err(|e| self.key_error(e, line))
    }

    /// `ov[kv] = v` where `oe` is the expression that produced `ov`.
    fn set_index_at(&mut self, p: &Program, fr: &Frame, oe: ExprId, ov: &Value, kv: Value, v: Value, line: u32) -> LResult<()> {
        match ov {
            Value::Table(t) => {
                let plain = t.borrow().meta.is_none();
                if plain {
                    return t.borrow_mut().set(kv, v).map_err(|e| self.key_error(e, line));
                }
                self.set_index(p, ov, kv, v, line)
            }
            Value::Str(_) => self.set_index(p, ov, kv, v, line),
            _ => Err(self.type_error(p, fr, oe, ov, "index", line)),
        }
    }

    fn assign(&mut self, p: &Program, fr: &Frame, targets: &[ExprId], exprs: &[ExprId], line: u32) -> LResult<()> {
        // single assignment fast path
        if targets.len() == 1 && exprs.len() == 1 {
            let t = targets[0];
            return match p.expr(t) {
                Expr::Index(oe, ke) => {
                    let ov = self.eval(p, fr, *oe)?;
                    let kv = self.eval(p, fr, *ke)?;
                    let v = self.eval(p, fr, exprs[0])?;
                    self.set_index_at(p, fr, *oe, &ov, kv, v, p.line(t))
                }
                _ => {
                    let v = self.eval(p, fr, exprs[0])?;
                    self.store(p, fr, t, v, line)
                }
            };
        }
        // general case: evaluate target prefixes, then values, then assign right to left
        let mut pre: Vec<Option<(Value, Value)>> = Vec::with_capacity(targets.len());
        for &t in targets {
            if let Expr::Index(oe, ke) = p.expr(t) {
                let ov = self.eval(p, fr, *oe)?;
                let kv = self.eval(p, fr, *ke)?;
                pre.push(Some((ov, kv)));
            } else {
                pre.push(None);
            }
        }
        let mut vals = self.eval_list(p, fr, exprs)?;
        vals.resize(targets.len(), Value::Nil);
        for i in (0..targets.len()).rev() {
            let v = std::mem::take(&mut vals[i]);
            let t = targets[i];
            match (p.expr(t), pre[i].take()) {
                (Expr::Index(oe, _), Some((ov, kv))) => self.set_index_at(p, fr, *oe, &ov, kv, v, p.line(t))?,
                _ => self.store(p, fr, t, v, line)?,
            }
        }
        Ok(())
    }

    fn store(&mut self, p: &Program, fr: &Frame, t: ExprId, v: Value, line: u32) -> LResult<()> {
        match p.expr(t) {
            Expr::Local(s, _) => {
                self.set_local(fr, *s, v);
                Ok(())
            }
            Expr::Upval(u) => {
                *fr.closure.upvals[*u as usize].borrow_mut() = v;
                Ok(())
            }
            Expr::Global(k) => self.set_global(p, fr, *k, v, line),
            Expr::Env => unsupported("assignment to the standard _ENV"),
            _ => unsupported("internal error: bad assignment target"),
        }
    }

    fn exec_local(&mut self, p: &Program, fr: &Frame, first: u16, nvars: u16, exprs: &[ExprId]) -> LResult<()> {
        if nvars == 1 && exprs.len() == 1 {
            let v = self.eval(p, fr, exprs[0])?;
            self.declare_local(fr, first, v);
            return Ok(());
        }
        let mut vals = self.eval_list(p, fr, exprs)?;
        vals.resize(nvars as usize, Value::Nil);
        for (i, v) in vals.into_iter().enumerate() {
            self.declare_local(fr, first + i as u16, v);
        }
        Ok(())
    }

    /// Common handling of a loop body's outcome: Some(flow) = leave the loop with `flow`.
    #[inline]
    fn loop_flow(f: Flow) -> Option<Flow> {
        match f {
            Flow::Normal => None,
            Flow::Break => Some(Flow::Normal),
            other => Some(other),
        }
    }

    fn exec_numfor(
        &mut self, p: &Program, fr: &Frame, base: u16, start: ExprId, limit: ExprId, step: Option<ExprId>, body: &Block, line: u32,
    ) -> LResult<Flow> {
        let init = self.eval(p, fr, start)?;
        let lim = self.eval(p, fr, limit)?;
        let stp = match step {
            Some(s) => self.eval(p, fr, s)?,
            None => Value::Int(1),
        };
        let var = base + 3;
        if let (Value::Int(i0), Value::Int(st)) = (&init, &stp) {
            // forlimit
            let mut stopnow = false;
            let ilimit = match &lim {
                Value::Int(l) => Some(*l),
                _ => match to_num(&lim) {
                    None => None,
                    Some(crate::numfmt::Num::Int(l)) => Some(l),
                    Some(crate::numfmt::Num::Flt(f)) => {
                        let r = if *st < 0 { f.ceil() } else { f.floor() };
                        match float_to_int(r) {
                            Some(l) => Some(l),
                            None => {
                                if f > 0.0 {
                                    if *st < 0 { stopnow = true; }
                                    Some(i64::MAX)
                                } else {
                                    if *st >= 0 { stopnow = true; }
                                    Some(i64::MIN)
                                }
                            }
                        }
                    }
                },
            };
            if let Some(l) = ilimit {
                let st = *st;
                let mut idx = if stopnow { 0 } else { *i0 }.wrapping_sub(st);
                loop {
                    idx = idx.wrapping_add(st);
                    let go = if 0 < st { idx <= l } else { l <= idx };
                    if !go {
                        return Ok(Flow::Normal);
                    }
                    self.step()?;
                    self.declare_local(fr, var, Value::Int(idx));
                    if let Some(f) = Self::loop_flow(self.exec_block(p, fr, body)?) {
                        return Ok(f);
                    }
                }
            }
        }
        let nl = to_float(&lim).ok_or_else(|| self.rt_error(ErrClass::ForLoop, line, "'for' limit must be a number"))?;
        let ns = to_float(&stp).ok_or_else(|| self.rt_error(ErrClass::ForLoop, line, "'for' step must be a number"))?;
        let ni = to_float(&init).ok_or_else(|| self.rt_error(ErrClass::ForLoop, line, "'for' initial value must be a number"))?;
        let mut idx = ni - ns;
        loop {
            idx += ns;
            let go = if 0.0 < ns { idx <= nl } else { nl <= idx };
            if !go {
                return Ok(Flow::Normal);
            }
            self.step()?;
            self.declare_local(fr, var, Value::Flt(idx));
            if let Some(f) = Self::loop_flow(self.exec_block(p, fr, body)?) {
                return Ok(f);
            }
        }
    }

    fn exec_genfor(&mut self, p: &Program, fr: &Frame, base: u16, nvars: u16, exprs: &[ExprId], body: &Block, line: u32) -> LResult<Flow> {
        let mut init = self.eval_list(p, fr, exprs)?;
        init.resize(3, Value::Nil);
        let mut ctrl = init.pop().unwrap_or(Value::Nil);
        let state = init.pop().unwrap_or(Value::Nil);
        let f = init.pop().unwrap_or(Value::Nil);
        if !matches!(f, Value::Func(_) | Value::Native(_)) && self.metamethod(&f, Mm::Call).is_nil() {
            let msg = format!("attempt to call a {} value", f.type_name());
            return Err(self.rt_error(ErrClass::Call, line, &msg));
        }
        loop {
            self.step()?;
            self.cur_line = line;
            let mut rs = match &f {
                Value::Func(c) => self.call_lua(p, c.clone(), vec![state.clone(), ctrl])?,
                Value::Native(n) => {
                    self.for_iter = true;
                    let saved = self.from_native;
                    self.from_native = false;
                    let r = self.call_native(p, n, vec![state.clone(), ctrl]);
                    self.from_native = saved;
                    self.for_iter = false;
                    r?
                }
                _ => self.call_value(p, &f, vec![state.clone(), ctrl])?,
            };
            rs.resize(nvars as usize, Value::Nil);
            if rs[0].is_nil() {
                return Ok(Flow::Normal);
            }
            ctrl = rs[0].clone();
            for (i, v) in rs.into_iter().enumerate() {
                self.declare_local(fr, base + 3 + i as u16, v);
            }
            if let Some(fl) = Self::loop_flow(self.exec_block(p, fr, body)?) {
                return Ok(fl);
            }
        }
    }

    pub fn exec_stmt(&mut self, p: &Program, fr: &Frame, s: &Stmt) -> LResult<Flow> {
        self.step()?;
        self.cur_line = s.line;
        match &s.kind {
            StmtKind::Call(e) => {
                self.eval_call(p, fr, *e)?;
            }
            StmtKind::Local { first, nvars, exprs } => self.exec_local(p, fr, *first, *nvars, exprs)?,
            StmtKind::LocalFunc { slot, proto } => {
                self.declare_local(fr, *slot, Value::Nil);
                let c = self.make_closure(p, fr, *proto);
                self.set_local(fr, *slot, c);
            }
            StmtKind::Assign { targets, exprs } => self.assign(p, fr, targets, exprs, s.line)?,
            StmtKind::If { arms, orelse } => {
                for (c, b) in arms {
                    if self.eval(p, fr, *c)?.truthy() {
                        return self.exec_block(p, fr, b);
                    }
                }
                if let Some(b) = orelse {
                    return self.exec_block(p, fr, b);
                }
            }
            StmtKind::While { cond, body } => loop {
                self.step()?;
                if !self.eval(p, fr, *cond)?.truthy() {
                    break;
                }
                if let Some(f) = Self::loop_flow(self.exec_block(p, fr, body)?) {
                    return Ok(f);
                }
            },
            StmtKind::Repeat { body, cond } => loop {
                self.step()?;
                if let Some(f) = Self::loop_flow(self.exec_block(p, fr, body)?) {
                    return Ok(f);
                }
                if self.eval(p, fr, *cond)?.truthy() {
                    break;
                }
            },
            StmtKind::NumFor { base, start, limit, step, body } => {
                return self.exec_numfor(p, fr, *base, *start, *limit, *step, body, s.line);
            }
            StmtKind::GenFor { base, nvars, exprs, body } => {
                return self.exec_genfor(p, fr, *base, *nvars, exprs, body, s.line);
            }
            StmtKind::Do(b) => return self.exec_block(p, fr, b),
            StmtKind::Goto(g) => {
                let proto = &p.protos[fr.closure.proto as usize];
                let t = proto.goto_targets[*g as usize];
                return Ok(if t == BREAK_TARGET { Flow::Break } else { Flow::Goto(t) });
            }
            StmtKind::Return(exprs) => {
                if exprs.len() == 1 {
                    let e = exprs[0];
                    if matches!(p.expr(e), Expr::Call(..) | Expr::Method(..)) {
                        let (f, args) = self.prepare_call(p, fr, e)?;
                        if let Value::Func(_) = f {
                            self.cur_line = p.line(e);
                            return Ok(Flow::TailCall(f, args));
                        }
                        return Ok(Flow::Return(self.invoke(p, f, args, p.line(e))?));
                    }
                }
                return Ok(Flow::Return(self.eval_list(p, fr, exprs)?));
            }
        }
        Ok(Flow::Normal)
    }
}
