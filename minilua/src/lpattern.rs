//! Lua pattern matching: a direct port of the matcher in lstrlib.c (Lua 5.3).
const L_ESC: u8 = b'%';
const MAXCAPTURES: usize = 32;
const MAXCCALLS: u32 = 200;
const CAP_UNFINISHED: isize = -1;
const CAP_POSITION: isize = -2;

pub enum Cap {
    Str(usize, usize),
    Pos(i64),
}

pub struct MatchState<'a> {
    pub src: &'a [u8],
    pub pat: &'a [u8],
    pub level: usize,
    capture: [(usize, isize); MAXCAPTURES],
    depth: u32,
    /// total number of `do_match` invocations (runaway backtracking guard)
    work: u64,
}

/// Marker error: the matcher used more than `WORK_LIMIT` steps.
pub const BUDGET_ERR: &str = "\u{0}pattern matching budget exceeded";
const WORK_LIMIT: u64 = 50_000_000;

type MResult<T> = Result<T, String>;

fn is_punct(c: u8) -> bool {
    c.is_ascii_graphic() && !c.is_ascii_alphanumeric()
}

fn match_class(c: u8, cl: u8) -> bool {
    let res = match cl.to_ascii_lowercase() {
        b'a' => c.is_ascii_alphabetic(),
        b'c' => c.is_ascii_control(),
        b'd' => c.is_ascii_digit(),
        b'g' => c.is_ascii_graphic(),
        b'l' => c.is_ascii_lowercase(),
        b'p' => is_punct(c),
        b's' => c == b' ' || (9..=13).contains(&c),
        b'u' => c.is_ascii_uppercase(),
        b'w' => c.is_ascii_alphanumeric(),
        b'x' => c.is_ascii_hexdigit(),
        b'z' => c == 0,
        _ => return cl == c,
    };
    if cl.is_ascii_uppercase() { !res } else { res }
}

impl<'a> MatchState<'a> {
    pub fn new(src: &'a [u8], pat: &'a [u8]) -> MatchState<'a> {
        MatchState { src, pat, level: 0, capture: [(0, 0); MAXCAPTURES], depth: MAXCCALLS, work: 0 }
    }

    pub fn reprep(&mut self) {
        self.level = 0;
        self.depth = MAXCCALLS;
    }

    #[inline]
    fn pat_at(&self, i: usize) -> u8 {
        self.pat.get(i).copied().unwrap_or(0)
    }

    fn class_end(&self, mut p: usize) -> MResult<usize> {
        let c = self.pat_at(p);
        p += 1;
        if c == L_ESC {
            if p >= self.pat.len() {
                return Err("malformed pattern (ends with '%')".into());
            }
            return Ok(p + 1);
        }
        if c == b'[' {
            if self.pat_at(p) == b'^' {
                p += 1;
            }
            loop {
                if p >= self.pat.len() {
                    return Err("malformed pattern (missing ']')".into());
                }
                let cc = self.pat[p];
                p += 1;
                if cc == L_ESC && p < self.pat.len() {
                    p += 1;
                }
                if self.pat_at(p) == b']' && p < self.pat.len() {
                    break;
                }
            }
            return Ok(p + 1);
        }
        Ok(p)
    }

    /// `p` points at '[', `ec` at the closing ']'.
    fn match_bracket_class(&self, c: u8, mut p: usize, ec: usize) -> bool {
        let mut sig = true;
        if self.pat_at(p + 1) == b'^' {
            sig = false;
            p += 1;
        }
        loop {
            p += 1;
            if p >= ec {
                break;
            }
            if self.pat[p] == L_ESC {
                p += 1;
                if match_class(c, self.pat_at(p)) {
                    return sig;
                }
            } else if self.pat_at(p + 1) == b'-' && p + 2 < ec {
                p += 2;
                if self.pat[p - 2] <= c && c <= self.pat[p] {
                    return sig;
                }
            } else if self.pat[p] == c {
                return sig;
            }
        }
        !sig
    }

    fn single_match(&self, s: usize, p: usize, ep: usize) -> bool {
        if s >= self.src.len() {
            return false;
        }
        let c = self.src[s];
        match self.pat_at(p) {
            b'.' => true,
            L_ESC => match_class(c, self.pat_at(p + 1)),
            b'[' => self.match_bracket_class(c, p, ep - 1),
            pc => pc == c,
        }
    }

    fn match_balance(&self, mut s: usize, p: usize) -> MResult<Option<usize>> {
        if p + 1 >= self.pat.len() {
            return Err("malformed pattern (missing arguments to '%b')".into());
        }
        if s >= self.src.len() || self.src[s] != self.pat[p] {
            return Ok(None);
        }
        let (b, e) = (self.pat[p], self.pat[p + 1]);
        let mut cont = 1;
        s += 1;
        while s < self.src.len() {
            let c = self.src[s];
            if c == e {
                cont -= 1;
                if cont == 0 {
                    return Ok(Some(s + 1));
                }
            } else if c == b {
                cont += 1;
            }
            s += 1;
        }
        Ok(None)
    }

    fn max_expand(&mut self, s: usize, p: usize, ep: usize) -> MResult<Option<usize>> {
        let mut i = 0usize;
        while self.single_match(s + i, p, ep) {
            i += 1;
        }
        loop {
            if let Some(r) = self.do_match(s + i, ep + 1)? {
                return Ok(Some(r));
            }
            if i == 0 {
                return Ok(None);
            }
            i -= 1;
        }
    }

    fn min_expand(&mut self, mut s: usize, p: usize, ep: usize) -> MResult<Option<usize>> {
        loop {
            if let Some(r) = self.do_match(s, ep + 1)? {
                return Ok(Some(r));
            }
            if self.single_match(s, p, ep) {
                s += 1;
            } else {
                return Ok(None);
            }
        }
    }

    fn start_capture(&mut self, s: usize, p: usize, what: isize) -> MResult<Option<usize>> {
        if self.level >= MAXCAPTURES {
            return Err("too many captures".into());
        }
        self.capture[self.level] = (s, what);
        self.level += 1;
        let r = self.do_match(s, p)?;
        if r.is_none() {
            self.level -= 1;
        }
        Ok(r)
    }

    fn end_capture(&mut self, s: usize, p: usize) -> MResult<Option<usize>> {
        let mut l = None;
        for lv in (0..self.level).rev() {
            if self.capture[lv].1 == CAP_UNFINISHED {
                l = Some(lv);
                break;
            }
        }
        let l = l.ok_or_else(|| "invalid pattern capture".to_string())?;
        self.capture[l].1 = (s - self.capture[l].0) as isize;
        let r = self.do_match(s, p)?;
        if r.is_none() {
            self.capture[l].1 = CAP_UNFINISHED;
        }
        Ok(r)
    }

    fn match_capture(&self, s: usize, l: u8) -> MResult<Option<usize>> {
        let li = l as isize - b'1' as isize;
        if li < 0 || li as usize >= self.level || self.capture[li as usize].1 == CAP_UNFINISHED {
            return Err(format!("invalid capture index %{}", li + 1));
        }
        let (init, len) = self.capture[li as usize];
        let len = len.max(0) as usize;
        if self.src.len() - s >= len && self.src[init..init + len] == self.src[s..s + len] {
            Ok(Some(s + len))
        } else {
            Ok(None)
        }
    }

    /// Try to match pattern position `p` at subject position `s`; returns the end of the match.
    pub fn do_match(&mut self, mut s: usize, mut p: usize) -> MResult<Option<usize>> {
        if self.depth == 0 {
            return Err("pattern too complex".into());
        }
        self.work += 1;
        if self.work > WORK_LIMIT {
            return Err(BUDGET_ERR.into());
        }
        self.depth -= 1;
        let res = loop {
            if p >= self.pat.len() {
                break Some(s);
            }
            let pc = self.pat[p];
            if pc == b'(' {
                break if self.pat_at(p + 1) == b')' {
                    self.start_capture(s, p + 2, CAP_POSITION)?
                } else {
                    self.start_capture(s, p + 1, CAP_UNFINISHED)?
                };
            }
            if pc == b')' {
                break self.end_capture(s, p + 1)?;
            }
            if pc == b'$' && p + 1 == self.pat.len() {
                break if s == self.src.len() { Some(s) } else { None };
            }
            if pc == L_ESC {
                let nx = self.pat_at(p + 1);
                if nx == b'b' && p + 1 < self.pat.len() {
                    match self.match_balance(s, p + 2)? {
                        Some(ns) => {
                            s = ns;
                            p += 4;
                            continue;
                        }
                        None => break None,
                    }
                }
                if nx == b'f' && p + 1 < self.pat.len() {
                    p += 2;
                    if self.pat_at(p) != b'[' || p >= self.pat.len() {
                        return Err("missing '[' after '%f' in pattern".into());
                    }
                    let ep = self.class_end(p)?;
                    let prev = if s == 0 { 0 } else { self.src[s - 1] };
                    let cur = self.src.get(s).copied().unwrap_or(0);
                    if !self.match_bracket_class(prev, p, ep - 1) && self.match_bracket_class(cur, p, ep - 1) {
                        p = ep;
                        continue;
                    }
                    break None;
                }
                if nx.is_ascii_digit() && p + 1 < self.pat.len() {
                    match self.match_capture(s, nx)? {
                        Some(ns) => {
                            s = ns;
                            p += 2;
                            continue;
                        }
                        None => break None,
                    }
                }
            }
            // default: single class with optional suffix
            let ep = self.class_end(p)?;
            let epc = self.pat_at(ep);
            let has_suffix = ep < self.pat.len();
            if !self.single_match(s, p, ep) {
                if has_suffix && (epc == b'*' || epc == b'?' || epc == b'-') {
                    p = ep + 1;
                    continue;
                }
                break None;
            }
            if has_suffix {
                match epc {
                    b'?' => {
                        if let Some(r) = self.do_match(s + 1, ep + 1)? {
                            break Some(r);
                        }
                        p = ep + 1;
                        continue;
                    }
                    b'+' => break self.max_expand(s + 1, p, ep)?,
                    b'*' => break self.max_expand(s, p, ep)?,
                    b'-' => break self.min_expand(s, p, ep)?,
                    _ => {}
                }
            }
            s += 1;
            p = ep;
        };
        self.depth += 1;
        Ok(res)
    }

    /// get_onecapture
    pub fn get_capture(&self, i: usize, s: usize, e: usize) -> MResult<Cap> {
        if i >= self.level {
            if i == 0 {
                return Ok(Cap::Str(s, e));
            }
            return Err(format!("invalid capture index %{}", i + 1));
        }
        let (init, len) = self.capture[i];
        if len == CAP_UNFINISHED {
            return Err("unfinished capture".into());
        }
        if len == CAP_POSITION {
            return Ok(Cap::Pos(init as i64 + 1));
        }
        Ok(Cap::Str(init, init + len as usize))
    }

    /// Number of values push_captures would produce for a successful match.
    pub fn ncaptures(&self, whole_if_none: bool) -> usize {
        if self.level == 0 && whole_if_none { 1 } else { self.level }
    }
}

/// lmemfind
pub fn find_plain(hay: &[u8], needle: &[u8], from: usize) -> Option<usize> {
    if needle.is_empty() {
        return Some(from);
    }
    if hay.len() < needle.len() {
        return None;
    }
    (from..=hay.len() - needle.len()).find(|&i| &hay[i..i + needle.len()] == needle)
}

pub fn no_specials(p: &[u8]) -> bool {
    !p.iter().any(|c| b"^$*+?.([%-".contains(c))
}
