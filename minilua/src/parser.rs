//! Parser core: function/block state, scoping, goto/label bookkeeping.
//! Closely follows lparser.c of Lua 5.3 so that static limits and the
//! wording/ordering of load errors agree with luac.
use crate::ast::*;
use crate::lexer::{Lexer, Tok};
use crate::LoadError;
use std::collections::HashMap;

pub const MAXVARS: usize = 200;
pub const MAXUPVAL: usize = 255;
pub const MAXCCALLS: u32 = 200;

pub type PResult<T> = Result<T, LoadError>;

pub struct BlockCnt {
    pub nactvar: u16,
    pub firstlabel: usize,
    pub firstgoto: usize,
    pub isloop: bool,
}

pub struct LabelDesc {
    pub name: String,
    /// label id (labels) or index into goto_targets (pending gotos)
    pub id: u32,
    pub line: u32,
    pub nactvar: u16,
}

pub struct UpvalInfo {
    pub name: String,
    /// this upvalue is (a copy of) the main chunk's standard `_ENV`
    pub std_env: bool,
}

pub struct FuncState {
    pub proto: Proto,
    pub actvar: Vec<(String, KId)>,
    pub nactvar: u16,
    pub blocks: Vec<BlockCnt>,
    pub labels: Vec<LabelDesc>,
    pub gotos: Vec<LabelDesc>,
    pub upinfo: Vec<UpvalInfo>,
    pub next_label: u32,
    /// AST blocks under construction (innermost last)
    pub building: Vec<Block>,
}

#[derive(Clone, Copy, PartialEq, Debug)]
pub enum VarKind {
    Void,
    Local(u16),
    Upval(u16),
}

pub struct Parser<'a> {
    pub lx: Lexer<'a>,
    pub prog: Program,
    kmap: HashMap<Vec<u8>, KId>,
    pub fs: Vec<FuncState>,
    /// L->nCcalls
    pub level: u32,
    /// expression id of a free-name access -> index in prog.free_names
    pub free_ref: HashMap<ExprId, usize>,
}

impl<'a> Parser<'a> {
    pub fn new(src: &'a str) -> PResult<Parser<'a>> {
        let lx = Lexer::new(src)?;
        let prog = Program {
            exprs: Vec::new(), lines: Vec::new(), protos: Vec::new(), consts: Vec::new(),
            is_vname: Vec::new(), main: 0, free_names: Vec::new(),
        };
        Ok(Parser { lx, prog, kmap: HashMap::new(), fs: Vec::new(), level: 1, free_ref: HashMap::new() })
    }

    // ---- small helpers -------------------------------------------------
    pub fn cur(&mut self) -> &mut FuncState {
        self.fs.last_mut().expect("function state")
    }

    pub fn konst(&mut self, s: &[u8]) -> KId {
        if let Some(&k) = self.kmap.get(s) {
            return k;
        }
        let k = self.prog.consts.len() as KId;
        self.prog.consts.push(s.to_vec());
        // a compiler-made variable: today `V<digits>`; any short alphabetic prefix followed by digits counts, so that a
        // compiler that names its variables differently is observed just the same (`utf8` is Lua's own)
        let letters = s.iter().take_while(|c| c.is_ascii_alphabetic() || **c == b'_').count();
        let isv = (1..=3).contains(&letters) && s[0].is_ascii_alphabetic() && s.len() > letters
            && s[letters..].iter().all(|c| c.is_ascii_digit()) && s != b"utf8";
        self.prog.is_vname.push(isv);
        self.kmap.insert(s.to_vec(), k);
        k
    }

    pub fn add_expr(&mut self, e: Expr, line: u32) -> ExprId {
        self.prog.exprs.push(e);
        self.prog.lines.push(line);
        (self.prog.exprs.len() - 1) as ExprId
    }

    pub fn syntax_error(&self, msg: &str) -> LoadError {
        self.lx.error_near_current(msg)
    }

    pub fn sem_error(&self, msg: &str) -> LoadError {
        self.lx.error_plain(msg)
    }

    pub fn error_expected(&self, t: &Tok) -> LoadError {
        self.syntax_error(&format!("'{}' expected", crate::lexer::tok_str(t)))
    }

    pub fn error_limit(&self, fsidx: usize, limit: usize, what: &str) -> LoadError {
        let line = self.fs[fsidx].proto.line;
        let wh = if line == 0 { "main function".to_string() } else { format!("function at line {}", line) };
        self.syntax_error(&format!("too many {} (limit is {}) in {}", what, limit, wh))
    }

    pub fn testnext(&mut self, t: &Tok) -> PResult<bool> {
        if self.lx.t == *t {
            self.lx.next()?;
            Ok(true)
        } else {
            Ok(false)
        }
    }

    pub fn check(&self, t: &Tok) -> PResult<()> {
        if self.lx.t != *t { Err(self.error_expected(t)) } else { Ok(()) }
    }

    pub fn checknext(&mut self, t: &Tok) -> PResult<()> {
        self.check(t)?;
        self.lx.next()
    }

    pub fn check_match(&mut self, what: &Tok, who: &Tok, line: u32) -> PResult<()> {
        if self.lx.t == *what {
            return self.lx.next();
        }
        if line == self.lx.line {
            Err(self.error_expected(what))
        } else {
            Err(self.syntax_error(&format!(
                "'{}' expected (to close '{}' at line {})",
                crate::lexer::tok_str(what), crate::lexer::tok_str(who), line
            )))
        }
    }

    pub fn str_checkname(&mut self) -> PResult<String> {
        if let Tok::Name(n) = &self.lx.t {
            let n = n.clone();
            self.lx.next()?;
            Ok(n)
        } else {
            Err(self.syntax_error("<name> expected"))
        }
    }

    pub fn enterlevel(&mut self) -> PResult<()> {
        self.level += 1;
        if self.level > MAXCCALLS {
            return Err(self.error_limit(self.fs.len() - 1, MAXCCALLS as usize, "C levels"));
        }
        Ok(())
    }

    pub fn leavelevel(&mut self) {
        self.level -= 1;
    }

    // ---- variables -----------------------------------------------------
    pub fn new_localvar(&mut self, name: &str) -> PResult<()> {
        let fsidx = self.fs.len() - 1;
        if self.fs[fsidx].actvar.len() + 1 > MAXVARS {
            return Err(self.error_limit(fsidx, MAXVARS, "local variables"));
        }
        let k = self.konst(name.as_bytes());
        self.cur().actvar.push((name.to_string(), k));
        Ok(())
    }

    pub fn adjust_localvars(&mut self, n: usize) {
        let fs = self.cur();
        fs.nactvar += n as u16;
        if fs.nactvar > fs.proto.nslots {
            fs.proto.nslots = fs.nactvar;
        }
    }

    fn remove_vars(&mut self, tolevel: u16) {
        let fs = self.cur();
        fs.actvar.truncate(tolevel as usize);
        fs.nactvar = tolevel;
    }

    fn search_var(&self, fsidx: usize, name: &str) -> Option<u16> {
        let fs = &self.fs[fsidx];
        (0..fs.nactvar as usize).rev().find(|&i| fs.actvar[i].0 == name).map(|i| i as u16)
    }

    fn search_upvalue(&self, fsidx: usize, name: &str) -> Option<u16> {
        self.fs[fsidx].upinfo.iter().position(|u| u.name == name).map(|i| i as u16)
    }

    fn new_upvalue(&mut self, fsidx: usize, name: &str, v: VarKind) -> PResult<u16> {
        if self.fs[fsidx].upinfo.len() + 1 > MAXUPVAL {
            return Err(self.error_limit(fsidx, MAXUPVAL, "upvalues"));
        }
        let k = self.konst(name.as_bytes());
        let (in_stack, idx, std_env) = match v {
            VarKind::Local(s) => (true, s, false),
            VarKind::Upval(u) => (false, u, self.fs[fsidx - 1].upinfo[u as usize].std_env),
            VarKind::Void => (false, 0, false),
        };
        let fs = &mut self.fs[fsidx];
        fs.proto.upvals.push(UpvalDesc { name: k, in_stack, idx });
        fs.upinfo.push(UpvalInfo { name: name.to_string(), std_env });
        Ok((fs.upinfo.len() - 1) as u16)
    }

    /// singlevaraux; `fsidx` is None when we ran out of enclosing functions.
    pub fn singlevaraux(&mut self, fsidx: Option<usize>, name: &str) -> PResult<VarKind> {
        let fsidx = match fsidx {
            None => return Ok(VarKind::Void),
            Some(i) => i,
        };
        if let Some(v) = self.search_var(fsidx, name) {
            return Ok(VarKind::Local(v));
        }
        if let Some(u) = self.search_upvalue(fsidx, name) {
            return Ok(VarKind::Upval(u));
        }
        let outer = if fsidx == 0 { None } else { Some(fsidx - 1) };
        let v = self.singlevaraux(outer, name)?;
        if v == VarKind::Void {
            return Ok(v);
        }
        let idx = self.new_upvalue(fsidx, name, v)?;
        Ok(VarKind::Upval(idx))
    }

    // ---- blocks, labels, gotos ------------------------------------------
    pub fn enterblock(&mut self, isloop: bool) {
        let fs = self.cur();
        let b = BlockCnt { nactvar: fs.nactvar, firstlabel: fs.labels.len(), firstgoto: fs.gotos.len(), isloop };
        fs.blocks.push(b);
    }

    /// closegoto: resolve pending goto `g` to `label_id`.
    fn closegoto(&mut self, g: usize, label_id: u32, label_nactvar: u16) -> PResult<()> {
        let fs = self.fs.last().unwrap();
        let gt = &fs.gotos[g];
        if gt.nactvar < label_nactvar {
            let vname = fs.actvar[gt.nactvar as usize].0.clone();
            let msg = format!("<goto {}> at line {} jumps into the scope of local '{}'", gt.name, gt.line, vname);
            return Err(self.sem_error(&msg));
        }
        let gid = gt.id as usize;
        let fs = self.cur();
        fs.proto.goto_targets[gid] = label_id;
        fs.gotos.remove(g);
        Ok(())
    }

    /// findlabel: try to close goto `g` with a label of the current block.
    fn findlabel(&mut self, g: usize) -> PResult<bool> {
        let fs = self.fs.last().unwrap();
        let first = fs.blocks.last().map(|b| b.firstlabel).unwrap_or(0);
        let mut found = None;
        for lb in &fs.labels[first..] {
            if lb.name == fs.gotos[g].name {
                found = Some((lb.id, lb.nactvar));
                break;
            }
        }
        match found {
            Some((id, nact)) => {
                self.closegoto(g, id, nact)?;
                Ok(true)
            }
            None => Ok(false),
        }
    }

    /// findgotos: close pending gotos of the current block that match a new label.
    fn findgotos(&mut self, name: &str, label_id: u32, nactvar: u16) -> PResult<()> {
        let mut i = self.cur().blocks.last().map(|b| b.firstgoto).unwrap_or(0);
        while i < self.cur().gotos.len() {
            if self.cur().gotos[i].name == name {
                self.closegoto(i, label_id, nactvar)?;
            } else {
                i += 1;
            }
        }
        Ok(())
    }

    /// Register a `goto name` / `break` statement; returns its goto index.
    pub fn new_goto(&mut self, name: &str, line: u32) -> PResult<u32> {
        let fs = self.cur();
        let id = fs.proto.goto_targets.len() as u32;
        fs.proto.goto_targets.push(UNRESOLVED);
        let nactvar = fs.nactvar;
        fs.gotos.push(LabelDesc { name: name.to_string(), id, line, nactvar });
        let g = fs.gotos.len() - 1;
        self.findlabel(g)?;
        Ok(id)
    }

    /// checkrepeated + newlabelentry. Returns (index in labels, label id).
    pub fn new_label(&mut self, name: &str, line: u32) -> PResult<(usize, u32)> {
        let fs = self.fs.last().unwrap();
        let first = fs.blocks.last().map(|b| b.firstlabel).unwrap_or(0);
        for lb in &fs.labels[first..] {
            if lb.name == name {
                return Err(self.sem_error(&format!("label '{}' already defined on line {}", name, lb.line)));
            }
        }
        let fs = self.cur();
        let id = fs.next_label;
        fs.next_label += 1;
        let nactvar = fs.nactvar;
        fs.labels.push(LabelDesc { name: name.to_string(), id, line, nactvar });
        Ok((fs.labels.len() - 1, id))
    }

    /// Second half of labelstat: optionally lower nactvar, then match gotos.
    pub fn finish_label(&mut self, idx: usize, at_block_end: bool) -> PResult<()> {
        let fs = self.cur();
        if at_block_end {
            fs.labels[idx].nactvar = fs.blocks.last().map(|b| b.nactvar).unwrap_or(0);
        }
        let (name, id, nact) = (fs.labels[idx].name.clone(), fs.labels[idx].id, fs.labels[idx].nactvar);
        self.findgotos(&name, id, nact)
    }

    pub fn leaveblock(&mut self) -> PResult<()> {
        let (isloop, nactvar, firstlabel, firstgoto) = {
            let b = self.cur().blocks.last().unwrap();
            (b.isloop, b.nactvar, b.firstlabel, b.firstgoto)
        };
        if isloop {
            // breaklabel: a label "break" at the current variable level
            let nact = self.cur().nactvar;
            self.findgotos("break", BREAK_TARGET, nact)?;
        }
        self.cur().blocks.pop();
        self.remove_vars(nactvar);
        self.cur().labels.truncate(firstlabel);
        if !self.cur().blocks.is_empty() {
            // movegotosout
            let mut i = firstgoto;
            while i < self.cur().gotos.len() {
                if self.cur().gotos[i].nactvar > nactvar {
                    self.cur().gotos[i].nactvar = nactvar;
                }
                if !self.findlabel(i)? {
                    i += 1;
                }
            }
        } else if firstgoto < self.cur().gotos.len() {
            let gt = &self.fs.last().unwrap().gotos[firstgoto];
            let msg = if gt.name == "break" {
                format!("<break> at line {} not inside a loop", gt.line)
            } else {
                format!("no visible label '{}' for <goto> at line {}", gt.name, gt.line)
            };
            return Err(self.sem_error(&msg));
        }
        Ok(())
    }

    // ---- functions -----------------------------------------------------
    pub fn open_func(&mut self, line: u32) {
        let depth = self.fs.len() as u32;
        let proto = Proto {
            line, nparams: 0, is_vararg: false, nslots: 0, upvals: Vec::new(),
            body: Block::default(), goto_targets: Vec::new(), depth,
        };
        self.fs.push(FuncState {
            proto, actvar: Vec::new(), nactvar: 0, blocks: Vec::new(), labels: Vec::new(),
            gotos: Vec::new(), upinfo: Vec::new(), next_label: 0, building: Vec::new(),
        });
        self.enterblock(false);
        self.cur().building.push(Block::default());
    }

    /// Finish the current function; returns its index in `prog.protos`.
    pub fn close_func(&mut self) -> PResult<u32> {
        self.leaveblock()?;
        let mut fs = self.fs.pop().unwrap();
        fs.proto.body = fs.building.pop().unwrap_or_default();
        self.prog.protos.push(fs.proto);
        Ok((self.prog.protos.len() - 1) as u32)
    }

    pub fn push_stmt(&mut self, line: u32, kind: StmtKind) {
        if let Some(b) = self.cur().building.last_mut() {
            b.stmts.push(Stmt { line, kind });
        }
    }
}
