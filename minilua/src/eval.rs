//! Expression evaluation.
use crate::arith::*;
use crate::ast::*;
use crate::interp::*;
use crate::table::Table;
use crate::value::*;
use crate::{ErrClass, Event};
use std::cell::RefCell;
use std::rc::Rc;

fn arith_mm(op: BinOp) -> Mm {
    match op {
        BinOp::Add => Mm::Add, BinOp::Sub => Mm::Sub, BinOp::Mul => Mm::Mul, BinOp::Div => Mm::Div,
        BinOp::Mod => Mm::Mod, BinOp::Pow => Mm::Pow, BinOp::IDiv => Mm::IDiv, BinOp::BAnd => Mm::BAnd,
        BinOp::BOr => Mm::BOr, BinOp::BXor => Mm::BXor, BinOp::Shl => Mm::Shl, BinOp::Shr => Mm::Shr,
        _ => Mm::Concat,
    }
}

impl Interp {
    #[inline]
    pub fn get_local(&self, fr: &Frame, s: u16) -> Value {
        match &self.stack[fr.base + s as usize] {
            Slot::Val(v) => v.clone(),
            Slot::Cell(c) => c.borrow().clone(),
        }
    }

    pub fn get_global(&mut self, p: &Program, fr: &Frame, k: KId) -> LResult<Value> {
        if self.record && p.is_vname[k as usize] {
            self.events.push(Event::GlobalRead { act: fr.act, name: p.const_str(k) });
        }
        let (v, has_meta) = {
            let g = self.globals.borrow();
            (g.get(&self.kstr[k as usize]), g.meta.is_some())
        };
        if v.is_nil() && has_meta {
            let g = Value::Table(self.globals.clone());
            let key = self.kstr[k as usize].clone();
            return self.index(p, &g, &key);
        }
        Ok(v)
    }

    pub fn eval(&mut self, p: &Program, fr: &Frame, e: ExprId) -> LResult<Value> {
        match p.expr(e) {
            Expr::Nil => Ok(Value::Nil),
            Expr::True => Ok(Value::Bool(true)),
            Expr::False => Ok(Value::Bool(false)),
            Expr::Int(i) => Ok(Value::Int(*i)),
            Expr::Flt(f) => Ok(Value::Flt(*f)),
            Expr::Str(k) => Ok(self.kstr[*k as usize].clone()),
            Expr::Vararg => Ok(fr.varargs.first().cloned().unwrap_or(Value::Nil)),
            Expr::Local(s, _) => Ok(self.get_local(fr, *s)),
            Expr::Upval(u) => Ok(fr.closure.upvals[*u as usize].borrow().clone()),
            Expr::Global(k) => self.get_global(p, fr, *k),
            Expr::Env => Ok(Value::Table(self.globals.clone())),
            Expr::Paren(i) => self.eval(p, fr, *i),
            Expr::Index(o, k) => {
                let ov = self.eval(p, fr, *o)?;
                let kv = self.eval(p, fr, *k)?;
                self.index_at(p, fr, *o, &ov, &kv, p.line(e))
            }
            Expr::Call(..) | Expr::Method(..) => {
                let mut r = self.eval_call(p, fr, e)?;
                Ok(if r.is_empty() { Value::Nil } else { r.swap_remove(0) })
            }
            Expr::Function(pi) => Ok(self.make_closure(p, fr, *pi)),
            Expr::And(a, b) => {
                let av = self.eval(p, fr, *a)?;
                if av.truthy() { self.eval(p, fr, *b) } else { Ok(av) }
            }
            Expr::Or(a, b) => {
                let av = self.eval(p, fr, *a)?;
                if av.truthy() { Ok(av) } else { self.eval(p, fr, *b) }
            }
            Expr::Un(op, a) => {
                let av = self.eval(p, fr, *a)?;
                self.eval_unop(p, fr, *op, *a, av, p.line(e))
            }
            Expr::Bin(op, a, b) => {
                if *op == BinOp::Concat {
                    return self.eval_concat(p, fr, e);
                }
                let av = self.eval(p, fr, *a)?;
                let bv = self.eval(p, fr, *b)?;
                self.eval_binop(p, fr, *op, *a, *b, av, bv, p.line(e))
            }
            Expr::Table(fields) => self.eval_table(p, fr, fields, p.line(e)),
        }
    }

    /// `ov[kv]` where `oe` is the expression that produced `ov` (for error messages).
    pub fn index_at(&mut self, p: &Program, fr: &Frame, oe: ExprId, ov: &Value, kv: &Value, line: u32) -> LResult<Value> {
        match ov {
            Value::Table(t) => {
                let tb = t.borrow();
                let v = tb.get(kv);
                if !v.is_nil() || tb.meta.is_none() {
                    return Ok(v);
                }
            }
            Value::Str(_) => {}
            _ => return Err(self.type_error(p, fr, oe, ov, "index", line)),
        }
        self.cur_line = line;
        self.index(p, ov, kv)
    }

    fn eval_unop(&mut self, p: &Program, fr: &Frame, op: UnOp, ae: ExprId, av: Value, line: u32) -> LResult<Value> {
        match op {
            UnOp::Not => Ok(Value::Bool(!av.truthy())),
            UnOp::Neg => match &av {
                Value::Int(i) => Ok(Value::Int(i.wrapping_neg())),
                Value::Flt(f) => Ok(Value::Flt(-f)),
                _ => {
                    if let Some(f) = to_float(&av) {
                        return Ok(Value::Flt(-f));
                    }
                    self.cur_line = line;
                    match self.bin_mm(p, &av, &av, Mm::Unm)? {
                        Some(v) => Ok(v),
                        None => Err(self.type_error(p, fr, ae, &av, "perform arithmetic on", line)),
                    }
                }
            },
            UnOp::BNot => {
                if let Some(i) = to_integer(&av) {
                    return Ok(Value::Int(!i));
                }
                self.cur_line = line;
                match self.bin_mm(p, &av, &av, Mm::BNot)? {
                    Some(v) => Ok(v),
                    None => {
                        if to_num(&av).is_some() {
                            Err(self.toint_error(p, fr, &av, ae, ae, line))
                        } else {
                            Err(self.type_error(p, fr, ae, &av, "perform bitwise operation on", line))
                        }
                    }
                }
            }
            UnOp::Len => {
                self.cur_line = line;
                match self.len_of(p, &av)? {
                    Some(v) => Ok(v),
                    None => Err(self.type_error(p, fr, ae, &av, "get length of", line)),
                }
            }
        }
    }

    #[allow(clippy::too_many_arguments)]
    pub fn eval_binop(
        &mut self, p: &Program, fr: &Frame, op: BinOp, ae: ExprId, be: ExprId, av: Value, bv: Value, line: u32,
    ) -> LResult<Value> {
        match op {
            BinOp::Eq => return Ok(Value::Bool(self.eq_at(p, &av, &bv, line)?)),
            BinOp::Ne => return Ok(Value::Bool(!self.eq_at(p, &av, &bv, line)?)),
            BinOp::Lt => return Ok(Value::Bool(self.less_than(p, &av, &bv, line)?)),
            BinOp::Le => return Ok(Value::Bool(self.less_equal(p, &av, &bv, line)?)),
            BinOp::Gt => return Ok(Value::Bool(self.less_than(p, &bv, &av, line)?)),
            BinOp::Ge => return Ok(Value::Bool(self.less_equal(p, &bv, &av, line)?)),
            _ => {}
        }
        // fast paths
        match (&av, &bv) {
            (Value::Int(x), Value::Int(y)) => match int_arith(op, *x, *y) {
                Ok(v) => return Ok(v),
                Err(ArithErr::DivZero(m)) => return Err(self.rt_error(ErrClass::Arith, line, m)),
                Err(_) => {}
            },
            (Value::Flt(x), Value::Flt(y)) if !is_bitwise(op) => return Ok(flt_arith(op, *x, *y)),
            _ => {}
        }
        match raw_arith(op, &av, &bv) {
            Ok(v) => Ok(v),
            Err(ArithErr::DivZero(m)) => Err(self.rt_error(ErrClass::Arith, line, m)),
            Err(kind) => {
                self.cur_line = line;
                if let Some(v) = self.bin_mm(p, &av, &bv, arith_mm(op))? {
                    return Ok(v);
                }
                match kind {
                    ArithErr::NoIntRep => Err(self.toint_error(p, fr, &av, ae, be, line)),
                    _ => {
                        let what = if is_bitwise(op) { "perform bitwise operation on" } else { "perform arithmetic on" };
                        Err(self.arith_error(p, fr, &av, &bv, ae, be, what, line))
                    }
                }
            }
        }
    }

    #[inline]
    fn eq_at(&mut self, p: &Program, a: &Value, b: &Value, line: u32) -> LResult<bool> {
        if let (Value::Table(_), Value::Table(_)) = (a, b) {
            self.cur_line = line;
            return self.equals(p, a, b);
        }
        Ok(a.raw_eq(b))
    }

    /// `a .. b .. c`: operands are evaluated left to right, then joined from the right.
    fn eval_concat(&mut self, p: &Program, fr: &Frame, e: ExprId) -> LResult<Value> {
        let mut ids = Vec::new();
        let mut lines = Vec::new();
        let mut cur = e;
        while let Expr::Bin(BinOp::Concat, a, b) = p.expr(cur) {
            ids.push(*a);
            lines.push(p.line(cur));
            cur = *b;
        }
        ids.push(cur);
        let mut vals = Vec::with_capacity(ids.len());
        for &i in &ids {
            vals.push(self.eval(p, fr, i)?);
        }
        // fast path: everything is a string or a number
        if vals.iter().all(can_concat) {
            let mut buf = Vec::new();
            for v in &vals {
                match v {
                    Value::Str(s) => buf.extend_from_slice(&s.b),
                    _ => buf.extend_from_slice(&num_to_bytes(v).unwrap_or_default()),
                }
            }
            return Ok(Value::bytes(buf));
        }
        let mut acc = vals.pop().unwrap_or(Value::Nil);
        let mut acc_expr = *ids.last().unwrap_or(&e);
        while let Some(v) = vals.pop() {
            let i = vals.len();
            let line = lines[i];
            self.cur_line = line;
            match self.concat2(p, &v, &acc)? {
                Some(r) => acc = r,
                None => return Err(self.concat_error(p, fr, &v, &acc, ids[i], acc_expr, line)),
            }
            acc_expr = crate::errors::NO_EXPR;
        }
        Ok(acc)
    }

    fn eval_table(&mut self, p: &Program, fr: &Frame, fields: &[Field], line: u32) -> LResult<Value> {
        let npos = fields.iter().filter(|f| matches!(f, Field::Pos(_))).count();
        let mut t = Table::with_capacity(npos);
        let mut next = 1i64;
        let nf = fields.len();
        for (i, f) in fields.iter().enumerate() {
            match f {
                Field::Named(k, v) => {
                    let kv = self.eval(p, fr, *k)?;
                    let vv = self.eval(p, fr, *v)?;
                    t.set(kv, vv).map_err(|k| self.key_error(k, line))?;
                }
                Field::Pos(v) => {
                    let multi = i + 1 == nf && matches!(p.expr(*v), Expr::Call(..) | Expr::Method(..) | Expr::Vararg);
                    if multi {
                        let mut vals = Vec::new();
                        self.eval_multi(p, fr, *v, &mut vals)?;
                        for x in vals {
                            t.set_positional(next, x);
                            next += 1;
                        }
                    } else {
                        let x = self.eval(p, fr, *v)?;
                        t.set_positional(next, x);
                        next += 1;
                    }
                }
            }
        }
        t.finish_constructor();
        Ok(Value::Table(self.new_table(t)))
    }

    pub fn make_closure(&mut self, p: &Program, fr: &Frame, pi: u32) -> Value {
        let proto = &p.protos[pi as usize];
        let mut ups = Vec::with_capacity(proto.upvals.len());
        for d in &proto.upvals {
            if d.in_stack {
                let idx = fr.base + d.idx as usize;
                let cell = match &mut self.stack[idx] {
                    Slot::Cell(c) => c.clone(),
                    Slot::Val(v) => {
                        let c: CellRef = Rc::new(RefCell::new(std::mem::take(v)));
                        self.stack[idx] = Slot::Cell(c.clone());
                        c
                    }
                };
                ups.push(cell);
            } else {
                ups.push(fr.closure.upvals[d.idx as usize].clone());
            }
        }
        if self.record {
            self.events.push(Event::Closure { act: fr.act, func_line: proto.line });
        }
        let c = self.new_closure(Closure { proto: pi, upvals: ups.into_boxed_slice() });
        Value::Func(c)
    }
}
