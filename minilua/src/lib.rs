//! minilua: a dependency-free Lua 5.3 interpreter (tree-walking, slot-resolved).
//! See README.md for the exact feature set and the known deviations.

pub mod ast;
pub mod lexer;
pub mod numfmt;
pub mod parser;
mod parse_expr;
mod parse_stmt;

use std::sync::Arc;

#[derive(Clone, Debug, PartialEq, Eq)]
pub struct LoadError {
    pub line: u32,
    pub message: String,
}

impl std::fmt::Display for LoadError {
    fn fmt(&self, f: &mut std::fmt::Formatter<'_>) -> std::fmt::Result {
        f.write_str(&self.message)
    }
}

impl std::error::Error for LoadError {}

/// A parsed and resolved chunk. Immutable, `Send + Sync`, cheap to clone (Arc).
#[derive(Clone, Debug)]
pub struct Chunk {
    pub(crate) prog: Arc<ast::Program>,
}

/// Syntax and static checks only; never runs code.
pub fn load(src: &str) -> Result<Chunk, LoadError> {
    let p = parser::Parser::new(src)?;
    let prog = p.parse_chunk()?;
    Ok(Chunk { prog: Arc::new(prog) })
}

/// Every syntactic global access: (name, line, is_write, function nesting depth; 0 = main chunk).
pub fn free_names(chunk: &Chunk) -> Vec<(String, u32, bool, u32)> {
    chunk.prog.free_names.iter().map(|f| (f.name.clone(), f.line, f.is_write, f.depth)).collect()
}
