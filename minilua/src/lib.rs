//! minilua: a dependency-free Lua 5.3 interpreter (tree-walking, slot-resolved).
//! See README.md for the exact feature set and the known deviations.

pub mod ast;
pub mod lexer;
pub mod numfmt;
pub mod parser;
mod parse_expr;
mod parse_stmt;

use std::sync::Arc;

#[derive(Clone, Debug, PartialEq, Eq)]
pub struct LoadError {
    pub line: u32,
    pub message: String,
}

impl std::fmt::Display for LoadError {
    fn fmt(&self, f: &mut std::fmt::Formatter<'_>) -> std::fmt::Result {
        f.write_str(&self.message)
    }
}

impl std::error::Error for LoadError {}

/// A parsed and resolved chunk. Immutable, `Send + Sync`, cheap to clone (Arc).
#[derive(Clone, Debug)]
pub struct Chunk {
    pub(crate) prog: Arc<ast::Program>,
}

/// Syntax and static checks only; never runs code.
pub fn load(src: &str) -> Result<Chunk, LoadError> {
    let p = parser::Parser::new(src)?;
    let prog = p.parse_chunk()?;
    Ok(Chunk { prog: Arc::new(prog) })
}

/// Every syntactic global access: (name, line, is_write, function nesting depth; 0 = main chunk).
pub fn free_names(chunk: &Chunk) -> Vec<(String, u32, bool, u32)> {
    chunk.prog.free_names.iter().map(|f| (f.name.clone(), f.line, f.is_write, f.depth)).collect()
}

mod arith;
mod call;
mod errors;
mod eval;
mod exec;
mod interp;
mod lib_base;
mod lib_math;
mod lib_os_io;
mod lib_stubs;
mod lib_string;
mod lib_table;
mod lpattern;
mod meta;
mod run;
mod strformat;
mod table;
mod value;

pub use run::{run, run_source};

#[derive(Clone, Debug, PartialEq, Eq)]
pub enum ErrClass {
    Arith,
    Concat,
    Call,
    Index,
    Compare,
    Assert,
    ErrorCall,
    /// nil or NaN used as a table key
    TableIndex,
    ForLoop,
    StackOverflow,
    Other,
}

#[derive(Clone, Debug, PartialEq)]
pub enum Outcome {
    /// the chunk ran to completion
    Done,
    /// an uncaught Lua error; `message` includes the `input:LINE:` prefix when Lua would add it
    Error { class: ErrClass, message: String, line: u32 },
    /// the step budget was exhausted (not an error of the program)
    StepLimit,
    /// the program used something this interpreter does not implement
    Unsupported(String),
}

#[derive(Clone, Debug)]
pub struct RunOptions {
    pub max_steps: u64,
    pub max_call_depth: usize,
    pub record_events: bool,
    /// if false, `print`/`io.write` go to the real stdout
    pub capture_output: bool,
    /// seed for math.random (deterministic)
    pub seed: u64,
}

impl Default for RunOptions {
    fn default() -> Self {
        RunOptions { max_steps: 50_000_000, max_call_depth: 7000, record_events: false, capture_output: true, seed: 0 }
    }
}

#[derive(Clone, Debug, PartialEq, Eq)]
pub enum Event {
    /// a Lua function is entered (the main chunk is activation 0 and gets no Enter event)
    Enter { act: u64, parent_act: u64, func_line: u32 },
    /// normal return or unwinding by error
    Exit { act: u64 },
    /// `name = v` on a global matching ^V[0-9]+$
    GlobalWrite { act: u64, name: String },
    /// read of a global matching ^V[0-9]+$
    GlobalRead { act: u64, name: String },
    /// a `function` expression / `local function` was evaluated
    Closure { act: u64, func_line: u32 },
}

#[derive(Clone, Debug)]
pub struct RunResult {
    pub outcome: Outcome,
    /// everything print/io.write produced (lossy UTF-8), if `capture_output`
    pub output: String,
    pub requires: Vec<String>,
    pub events: Vec<Event>,
    pub steps: u64,
}
