//! Expression parsing (lparser.c: subexpr, simpleexp, suffixedexp, constructor, body).
use crate::ast::*;
use crate::lexer::Tok;
use crate::parser::*;

fn unop(t: &Tok) -> Option<UnOp> {
    match t {
        Tok::Not => Some(UnOp::Not),
        Tok::Ch(b'-') => Some(UnOp::Neg),
        Tok::Ch(b'~') => Some(UnOp::BNot),
        Tok::Ch(b'#') => Some(UnOp::Len),
        _ => None,
    }
}

#[derive(Clone, Copy)]
enum B {
    Op(BinOp),
    And,
    Or,
}

/// operator, left priority, right priority
fn binop(t: &Tok) -> Option<(B, u8, u8)> {
    use BinOp::*;
    Some(match t {
        Tok::Ch(b'+') => (B::Op(Add), 10, 10),
        Tok::Ch(b'-') => (B::Op(Sub), 10, 10),
        Tok::Ch(b'*') => (B::Op(Mul), 11, 11),
        Tok::Ch(b'%') => (B::Op(Mod), 11, 11),
        Tok::Ch(b'^') => (B::Op(Pow), 14, 13),
        Tok::Ch(b'/') => (B::Op(Div), 11, 11),
        Tok::IDiv => (B::Op(IDiv), 11, 11),
        Tok::Ch(b'&') => (B::Op(BAnd), 6, 6),
        Tok::Ch(b'|') => (B::Op(BOr), 4, 4),
        Tok::Ch(b'~') => (B::Op(BXor), 5, 5),
        Tok::Shl => (B::Op(Shl), 7, 7),
        Tok::Shr => (B::Op(Shr), 7, 7),
        Tok::Concat => (B::Op(Concat), 9, 8),
        Tok::Eq => (B::Op(Eq), 3, 3),
        Tok::Ne => (B::Op(Ne), 3, 3),
        Tok::Ch(b'<') => (B::Op(Lt), 3, 3),
        Tok::Le => (B::Op(Le), 3, 3),
        Tok::Ch(b'>') => (B::Op(Gt), 3, 3),
        Tok::Ge => (B::Op(Ge), 3, 3),
        Tok::And => (B::And, 2, 2),
        Tok::Or => (B::Or, 1, 1),
        _ => return None,
    })
}

const UNARY_PRIORITY: u8 = 12;

impl<'a> Parser<'a> {
    pub fn expr(&mut self) -> PResult<ExprId> {
        Ok(self.subexpr(0)?.0)
    }

    fn subexpr(&mut self, limit: u8) -> PResult<(ExprId, Option<(B, u8, u8)>)> {
        self.enterlevel()?;
        let mut v = if let Some(u) = unop(&self.lx.t) {
            let line = self.lx.line;
            self.lx.next()?;
            let (e, _) = self.subexpr(UNARY_PRIORITY)?;
            self.add_expr(Expr::Un(u, e), line)
        } else {
            self.simpleexp()?
        };
        let mut op = binop(&self.lx.t);
        while let Some((b, left, right)) = op {
            if left <= limit {
                break;
            }
            let line = self.lx.line;
            self.lx.next()?;
            let (v2, nextop) = self.subexpr(right)?;
            let e = match b {
                B::Op(o) => Expr::Bin(o, v, v2),
                B::And => Expr::And(v, v2),
                B::Or => Expr::Or(v, v2),
            };
            v = self.add_expr(e, line);
            op = nextop;
        }
        self.leavelevel();
        Ok((v, op))
    }

    fn simpleexp(&mut self) -> PResult<ExprId> {
        let line = self.lx.line;
        let e = match &self.lx.t {
            Tok::Flt(f) => Expr::Flt(*f),
            Tok::Int(i) => Expr::Int(*i),
            Tok::Str(s) => {
                let s = s.clone();
                Expr::Str(self.konst(&s))
            }
            Tok::Nil => Expr::Nil,
            Tok::True => Expr::True,
            Tok::False => Expr::False,
            Tok::Dots => {
                if !self.cur().proto.is_vararg {
                    return Err(self.syntax_error("cannot use '...' outside a vararg function"));
                }
                Expr::Vararg
            }
            Tok::Ch(b'{') => return self.constructor(),
            Tok::Function => {
                self.lx.next()?;
                let l = self.lx.line;
                let p = self.body(false, l)?;
                return Ok(self.add_expr(Expr::Function(p), l));
            }
            _ => return self.suffixedexp(),
        };
        self.lx.next()?;
        Ok(self.add_expr(e, line))
    }

    /// Resolve a name to a local, upvalue or global access.
    pub fn singlevar(&mut self, name: &str, line: u32) -> PResult<ExprId> {
        let top = self.fs.len() - 1;
        let k = self.konst(name.as_bytes());
        match self.singlevaraux(Some(top), name)? {
            VarKind::Local(s) => Ok(self.add_expr(Expr::Local(s, k), line)),
            VarKind::Upval(u) => {
                if self.fs[top].upinfo[u as usize].std_env && name == "_ENV" {
                    Ok(self.add_expr(Expr::Env, line))
                } else {
                    Ok(self.add_expr(Expr::Upval(u), line))
                }
            }
            VarKind::Void => {
                // global name: _ENV.name
                let depth = self.fs[top].proto.depth;
                let id = match self.singlevaraux(Some(top), "_ENV")? {
                    VarKind::Upval(u) if self.fs[top].upinfo[u as usize].std_env => {
                        self.add_expr(Expr::Global(k), line)
                    }
                    VarKind::Upval(u) => {
                        let t = self.add_expr(Expr::Upval(u), line);
                        let ke = self.add_expr(Expr::Str(k), line);
                        self.add_expr(Expr::Index(t, ke), line)
                    }
                    VarKind::Local(s) => {
                        let kenv = self.konst(b"_ENV");
                        let t = self.add_expr(Expr::Local(s, kenv), line);
                        let ke = self.add_expr(Expr::Str(k), line);
                        self.add_expr(Expr::Index(t, ke), line)
                    }
                    VarKind::Void => self.add_expr(Expr::Global(k), line),
                };
                self.prog.free_names.push(FreeName { name: name.to_string(), line, is_write: false, depth });
                self.free_ref.insert(id, self.prog.free_names.len() - 1);
                Ok(id)
            }
        }
    }

    fn primaryexp(&mut self) -> PResult<ExprId> {
        let line = self.lx.line;
        match &self.lx.t {
            Tok::Name(n) => {
                let n = n.clone();
                self.lx.next()?;
                self.singlevar(&n, line)
            }
            Tok::Ch(b'(') => {
                self.lx.next()?;
                let e = self.expr()?;
                self.check_match(&Tok::Ch(b')'), &Tok::Ch(b'('), line)?;
                Ok(self.add_expr(Expr::Paren(e), line))
            }
            _ => Err(self.syntax_error("unexpected symbol")),
        }
    }

    pub fn suffixedexp(&mut self) -> PResult<ExprId> {
        let line = self.lx.line;
        let mut v = self.primaryexp()?;
        loop {
            match &self.lx.t {
                Tok::Ch(b'.') => {
                    self.lx.next()?;
                    let n = self.str_checkname()?;
                    let l = self.lx.lastline;
                    let k = self.konst(n.as_bytes());
                    let ke = self.add_expr(Expr::Str(k), l);
                    v = self.add_expr(Expr::Index(v, ke), l);
                }
                Tok::Ch(b'[') => {
                    self.lx.next()?;
                    let ke = self.expr()?;
                    self.checknext(&Tok::Ch(b']'))?;
                    let l = self.lx.lastline;
                    v = self.add_expr(Expr::Index(v, ke), l);
                }
                Tok::Ch(b':') => {
                    self.lx.next()?;
                    let n = self.str_checkname()?;
                    let k = self.konst(n.as_bytes());
                    let args = self.funcargs(line)?;
                    v = self.add_expr(Expr::Method(v, k, args), line);
                }
                Tok::Ch(b'(') | Tok::Str(_) | Tok::Ch(b'{') => {
                    let args = self.funcargs(line)?;
                    v = self.add_expr(Expr::Call(v, args), line);
                }
                _ => return Ok(v),
            }
        }
    }

    fn funcargs(&mut self, line: u32) -> PResult<Box<[ExprId]>> {
        match &self.lx.t {
            Tok::Ch(b'(') => {
                self.lx.next()?;
                let args = if self.lx.t == Tok::Ch(b')') { Vec::new() } else { self.explist()? };
                self.check_match(&Tok::Ch(b')'), &Tok::Ch(b'('), line)?;
                Ok(args.into_boxed_slice())
            }
            Tok::Ch(b'{') => Ok(vec![self.constructor()?].into_boxed_slice()),
            Tok::Str(s) => {
                let s = s.clone();
                let l = self.lx.line;
                let k = self.konst(&s);
                self.lx.next()?;
                Ok(vec![self.add_expr(Expr::Str(k), l)].into_boxed_slice())
            }
            _ => Err(self.syntax_error("function arguments expected")),
        }
    }

    pub fn explist(&mut self) -> PResult<Vec<ExprId>> {
        let mut v = vec![self.expr()?];
        while self.testnext(&Tok::Ch(b','))? {
            v.push(self.expr()?);
        }
        Ok(v)
    }

    fn constructor(&mut self) -> PResult<ExprId> {
        let line = self.lx.line;
        self.checknext(&Tok::Ch(b'{'))?;
        let mut fields = Vec::new();
        loop {
            if self.lx.t == Tok::Ch(b'}') {
                break;
            }
            match &self.lx.t {
                Tok::Name(n) => {
                    let n = n.clone();
                    if *self.lx.lookahead()? == Tok::Ch(b'=') {
                        let l = self.lx.line;
                        self.lx.next()?;
                        let k = self.konst(n.as_bytes());
                        let ke = self.add_expr(Expr::Str(k), l);
                        self.checknext(&Tok::Ch(b'='))?;
                        let v = self.expr()?;
                        fields.push(Field::Named(ke, v));
                    } else {
                        fields.push(Field::Pos(self.expr()?));
                    }
                }
                Tok::Ch(b'[') => {
                    self.lx.next()?;
                    let ke = self.expr()?;
                    self.checknext(&Tok::Ch(b']'))?;
                    self.checknext(&Tok::Ch(b'='))?;
                    let v = self.expr()?;
                    fields.push(Field::Named(ke, v));
                }
                _ => fields.push(Field::Pos(self.expr()?)),
            }
            if !(self.testnext(&Tok::Ch(b','))? || self.testnext(&Tok::Ch(b';'))?) {
                break;
            }
        }
        self.check_match(&Tok::Ch(b'}'), &Tok::Ch(b'{'), line)?;
        Ok(self.add_expr(Expr::Table(fields.into_boxed_slice()), line))
    }

    /// Function body: `(params) block end`. Returns the proto index.
    pub fn body(&mut self, ismethod: bool, line: u32) -> PResult<u32> {
        self.open_func(line);
        self.checknext(&Tok::Ch(b'('))?;
        if ismethod {
            self.new_localvar("self")?;
            self.adjust_localvars(1);
        }
        // parlist
        let mut nparams = 0;
        if self.lx.t != Tok::Ch(b')') {
            loop {
                match &self.lx.t {
                    Tok::Name(_) => {
                        let n = self.str_checkname()?;
                        self.new_localvar(&n)?;
                        nparams += 1;
                    }
                    Tok::Dots => {
                        self.lx.next()?;
                        self.cur().proto.is_vararg = true;
                    }
                    _ => return Err(self.syntax_error("<name> or '...' expected")),
                }
                if self.cur().proto.is_vararg || !self.testnext(&Tok::Ch(b','))? {
                    break;
                }
            }
        }
        self.adjust_localvars(nparams);
        let np = self.cur().nactvar;
        self.cur().proto.nparams = np;
        self.checknext(&Tok::Ch(b')'))?;
        self.statlist()?;
        self.check_match(&Tok::End, &Tok::Function, line)?;
        self.close_func()
    }
}
