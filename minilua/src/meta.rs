//! Operations that may dispatch to metamethods (lvm.c: finishget/finishset,
//! equalobj, lessthan, lessequal, objlen, concat; lauxlib.c: luaL_tolstring).
use crate::arith::*;
use crate::ast::Program;
use crate::interp::{Interp, Mm};
use crate::value::*;
use crate::ErrClass;
use std::rc::Rc;

const MAXTAGLOOP: usize = 2000;

fn first(mut v: Vec<Value>) -> Value {
    if v.is_empty() { Value::Nil } else { v.swap_remove(0) }
}

impl Interp {
    /// `obj[key]` with `__index`. A non-indexable `obj` raises an error without variable info
    /// (call sites that know the expression check the first level themselves).
    pub fn index(&mut self, p: &Program, obj: &Value, key: &Value) -> LResult<Value> {
        let mut cur = obj.clone();
        for _ in 0..MAXTAGLOOP {
            let h = match &cur {
                Value::Table(t) => {
                    let tb = t.borrow();
                    let v = tb.get(key);
                    if !v.is_nil() {
                        return Ok(v);
                    }
                    match &tb.meta {
                        None => return Ok(Value::Nil),
                        Some(mt) => {
                            let h = mt.borrow().get(&self.mm[Mm::Index as usize]);
                            if h.is_nil() {
                                return Ok(Value::Nil);
                            }
                            h
                        }
                    }
                }
                other => {
                    let h = self.metamethod(other, Mm::Index);
                    if h.is_nil() {
                        let msg = format!("attempt to index a {} value", other.type_name());
                        return Err(self.rt_error(ErrClass::Index, self.cur_line, &msg));
                    }
                    h
                }
            };
            match h {
                Value::Func(_) | Value::Native(_) => {
                    return Ok(first(self.call_value(p, &h, vec![cur, key.clone()])?));
                }
                _ => cur = h,
            }
        }
        Err(self.rt_error(ErrClass::Index, self.cur_line, "'__index' chain too long; possibly a loop"))
    }

    /// `obj[key] = val` with `__newindex`.
    pub fn set_index(&mut self, p: &Program, obj: &Value, key: Value, val: Value, line: u32) -> LResult<()> {
        let mut cur = obj.clone();
        for _ in 0..MAXTAGLOOP {
            let h = match &cur {
                Value::Table(t) => {
                    let h = {
                        let tb = t.borrow();
                        match &tb.meta {
                            None => Value::Nil,
                            Some(mt) => {
                                if !tb.get(&key).is_nil() {
                                    Value::Nil
                                } else {
                                    mt.borrow().get(&self.mm[Mm::NewIndex as usize])
                                }
                            }
                        }
                    };
                    if h.is_nil() {
                        return t.borrow_mut().set(key, val).map_err(|k| self.key_error(k, line));
                    }
                    h
                }
                other => {
                    let h = self.metamethod(other, Mm::NewIndex);
                    if h.is_nil() {
                        let msg = format!("attempt to index a {} value", other.type_name());
                        self.cur_line = line;
                        return Err(self.rt_error(ErrClass::Index, self.cur_line, &msg));
                    }
                    h
                }
            };
            match h {
                Value::Func(_) | Value::Native(_) => {
                    self.cur_line = line;
                    self.call_value(p, &h, vec![cur, key, val])?;
                    return Ok(());
                }
                _ => cur = h,
            }
        }
        Err(self.rt_error(ErrClass::Index, line, "'__newindex' chain too long; possibly a loop"))
    }

    /// `a == b` honouring `__eq` (only for two distinct tables).
    pub fn equals(&mut self, p: &Program, a: &Value, b: &Value) -> LResult<bool> {
        if let (Value::Table(x), Value::Table(y)) = (a, b) {
            if Rc::ptr_eq(x, y) {
                return Ok(true);
            }
            let mut h = self.metamethod(a, Mm::Eq);
            if h.is_nil() {
                h = self.metamethod(b, Mm::Eq);
            }
            if h.is_nil() {
                return Ok(false);
            }
            let r = self.call_value(p, &h, vec![a.clone(), b.clone()])?;
            return Ok(first(r).truthy());
        }
        Ok(a.raw_eq(b))
    }

    fn order_mm(&mut self, p: &Program, a: &Value, b: &Value, m: Mm) -> LResult<Option<bool>> {
        let mut h = self.metamethod(a, m);
        if h.is_nil() {
            h = self.metamethod(b, m);
        }
        if h.is_nil() {
            return Ok(None);
        }
        let r = self.call_value(p, &h, vec![a.clone(), b.clone()])?;
        Ok(Some(first(r).truthy()))
    }

    pub fn less_than(&mut self, p: &Program, a: &Value, b: &Value, line: u32) -> LResult<bool> {
        if let Some(r) = num_lt(a, b) {
            return Ok(r);
        }
        if let (Value::Str(x), Value::Str(y)) = (a, b) {
            return Ok(x.b < y.b);
        }
        self.cur_line = line;
        match self.order_mm(p, a, b, Mm::Lt)? {
            Some(r) => Ok(r),
            None => Err(self.order_error(a, b, line)),
        }
    }

    pub fn less_equal(&mut self, p: &Program, a: &Value, b: &Value, line: u32) -> LResult<bool> {
        if let Some(r) = num_le(a, b) {
            return Ok(r);
        }
        if let (Value::Str(x), Value::Str(y)) = (a, b) {
            return Ok(x.b <= y.b);
        }
        self.cur_line = line;
        if let Some(r) = self.order_mm(p, a, b, Mm::Le)? {
            return Ok(r);
        }
        // 5.3: try `not (b < a)`
        match self.order_mm(p, b, a, Mm::Lt)? {
            Some(r) => Ok(!r),
            None => Err(self.order_error(a, b, line)),
        }
    }

    pub fn tostring_basic(v: &Value) -> Vec<u8> {
        match v {
            Value::Nil => b"nil".to_vec(),
            Value::Bool(true) => b"true".to_vec(),
            Value::Bool(false) => b"false".to_vec(),
            Value::Int(_) | Value::Flt(_) => num_to_bytes(v).unwrap_or_default(),
            Value::Str(s) => s.b.to_vec(),
            Value::Table(t) => format!("table: 0x{:08x}", Rc::as_ptr(t) as *const u8 as usize).into_bytes(),
            Value::Func(f) => format!("function: 0x{:08x}", Rc::as_ptr(f) as *const u8 as usize).into_bytes(),
            Value::Native(n) => format!("function: builtin: {}", n.name).into_bytes(),
        }
    }

    /// luaL_tolstring
    pub fn tostring(&mut self, p: &Program, v: &Value) -> LResult<Value> {
        if let Value::Str(_) = v {
            return Ok(v.clone());
        }
        let h = self.metamethod(v, Mm::ToString);
        if !h.is_nil() {
            let r = first(self.call_value(p, &h, vec![v.clone()])?);
            return match r {
                Value::Str(_) => Ok(r),
                Value::Int(_) | Value::Flt(_) => Ok(Value::bytes(num_to_bytes(&r).unwrap_or_default())),
                _ => Err(self.lib_error(ErrClass::Other, "'__tostring' must return a string")),
            };
        }
        if let Value::Table(t) = v {
            if let Value::Str(n) = self.metamethod(v, Mm::Name) {
                let s = format!("{}: 0x{:08x}", n.to_str_lossy(), Rc::as_ptr(t) as *const u8 as usize);
                return Ok(Value::string(s));
            }
        }
        Ok(Value::bytes(Self::tostring_basic(v)))
    }

    /// `#v`; the caller handles the error for non-table/non-string values without `__len`.
    pub fn len_of(&mut self, p: &Program, v: &Value) -> LResult<Option<Value>> {
        match v {
            Value::Str(s) => Ok(Some(Value::Int(s.b.len() as i64))),
            Value::Table(t) => {
                let h = self.metamethod(v, Mm::Len);
                if h.is_nil() {
                    return Ok(Some(Value::Int(t.borrow().len())));
                }
                Ok(Some(first(self.call_value(p, &h, vec![v.clone()])?)))
            }
            _ => Ok(None),
        }
    }

    /// Binary metamethod (luaT_callbinTM): first operand's handler, then second's.
    pub fn bin_mm(&mut self, p: &Program, a: &Value, b: &Value, m: Mm) -> LResult<Option<Value>> {
        let mut h = self.metamethod(a, m);
        if h.is_nil() {
            h = self.metamethod(b, m);
        }
        if h.is_nil() {
            return Ok(None);
        }
        Ok(Some(first(self.call_value(p, &h, vec![a.clone(), b.clone()])?)))
    }

    /// Concatenate two values; Ok(None) means "no way to concatenate" (caller raises the error).
    pub fn concat2(&mut self, p: &Program, a: &Value, b: &Value) -> LResult<Option<Value>> {
        if can_concat(a) && can_concat(b) {
            let mut buf = concat_piece(a).unwrap_or_default();
            match b {
                Value::Str(s) => buf.extend_from_slice(&s.b),
                _ => buf.extend_from_slice(&num_to_bytes(b).unwrap_or_default()),
            }
            return Ok(Some(Value::bytes(buf)));
        }
        self.bin_mm(p, a, b, Mm::Concat)
    }
}
