//! Lexer, modelled on llex.c of Lua 5.3.
use crate::LoadError;

#[derive(Clone, Debug, PartialEq)]
pub enum Tok {
    And, Break, Do, Else, Elseif, End, False, For, Function, Goto, If, In, Local, Nil, Not, Or,
    Repeat, Return, Then, True, Until, While,
    IDiv, Concat, Dots, Eq, Ge, Le, Ne, Shl, Shr, DbColon, Eos,
    Flt(f64), Int(i64), Name(String), Str(Vec<u8>),
    Ch(u8),
}

const RESERVED: [(&str, Tok); 22] = [
    ("and", Tok::And), ("break", Tok::Break), ("do", Tok::Do), ("else", Tok::Else),
    ("elseif", Tok::Elseif), ("end", Tok::End), ("false", Tok::False), ("for", Tok::For),
    ("function", Tok::Function), ("goto", Tok::Goto), ("if", Tok::If), ("in", Tok::In),
    ("local", Tok::Local), ("nil", Tok::Nil), ("not", Tok::Not), ("or", Tok::Or),
    ("repeat", Tok::Repeat), ("return", Tok::Return), ("then", Tok::Then), ("true", Tok::True),
    ("until", Tok::Until), ("while", Tok::While),
];

pub fn is_reserved(s: &str) -> bool {
    RESERVED.iter().any(|(n, _)| *n == s)
}

/// Text of a fixed token as luaX_token2str would print it (without quotes).
pub fn tok_str(t: &Tok) -> String {
    for (n, k) in RESERVED.iter() {
        if k == t {
            return n.to_string();
        }
    }
    match t {
        Tok::IDiv => "//".into(), Tok::Concat => "..".into(), Tok::Dots => "...".into(),
        Tok::Eq => "==".into(), Tok::Ge => ">=".into(), Tok::Le => "<=".into(),
        Tok::Ne => "~=".into(), Tok::Shl => "<<".into(), Tok::Shr => ">>".into(),
        Tok::DbColon => "::".into(), Tok::Eos => "<eof>".into(),
        Tok::Flt(_) => "<number>".into(), Tok::Int(_) => "<integer>".into(),
        Tok::Name(_) => "<name>".into(), Tok::Str(_) => "<string>".into(),
        Tok::Ch(c) => {
            if *c < 32 || *c >= 127 { format!("<\\{}>", c) } else { (*c as char).to_string() }
        }
        _ => "?".into(),
    }
}

pub struct Lexer<'a> {
    src: &'a [u8],
    pos: usize,
    /// line the scanner has reached (ls->linenumber)
    pub line: u32,
    /// line of the last token consumed (ls->lastline)
    pub lastline: u32,
    pub t: Tok,
    t_span: (usize, usize),
    ahead: Option<(Tok, (usize, usize))>,
}

type LResult<T> = Result<T, LoadError>;

impl<'a> Lexer<'a> {
    pub fn new(src: &'a str) -> LResult<Lexer<'a>> {
        let b = src.as_bytes();
        let mut pos = 0;
        if b.first() == Some(&b'#') {
            while pos < b.len() && b[pos] != b'\n' && b[pos] != b'\r' {
                pos += 1;
            }
        }
        let mut lx = Lexer { src: b, pos, line: 1, lastline: 1, t: Tok::Eos, t_span: (0, 0), ahead: None };
        lx.next()?;
        Ok(lx)
    }

    fn cur(&self) -> Option<u8> { self.src.get(self.pos).copied() }
    fn peek_at(&self, off: usize) -> Option<u8> { self.src.get(self.pos + off).copied() }

    pub fn next(&mut self) -> LResult<()> {
        self.lastline = self.line;
        if let Some((t, sp)) = self.ahead.take() {
            self.t = t;
            self.t_span = sp;
        } else {
            let (t, sp) = self.llex()?;
            self.t = t;
            self.t_span = sp;
        }
        Ok(())
    }

    pub fn lookahead(&mut self) -> LResult<&Tok> {
        if self.ahead.is_none() {
            let r = self.llex()?;
            self.ahead = Some(r);
        }
        Ok(&self.ahead.as_ref().unwrap().0)
    }

    /// Text used for "near ..." for the current token.
    pub fn near_current(&self) -> String {
        match &self.t {
            Tok::Name(_) | Tok::Str(_) | Tok::Flt(_) | Tok::Int(_) => {
                format!("'{}'", String::from_utf8_lossy(&self.src[self.t_span.0..self.t_span.1]))
            }
            Tok::Eos => "<eof>".to_string(),
            t => format!("'{}'", tok_str(t)),
        }
    }

    pub fn error_near_current(&self, msg: &str) -> LoadError {
        LoadError { line: self.line, message: format!("input:{}: {} near {}", self.line, msg, self.near_current()) }
    }

    pub fn error_plain(&self, msg: &str) -> LoadError {
        LoadError { line: self.line, message: format!("input:{}: {}", self.line, msg) }
    }

    fn lexerr(&self, msg: &str, start: usize, eos: bool) -> LoadError {
        let near = if eos {
            "<eof>".to_string()
        } else {
            let end = self.pos.min(self.src.len());
            format!("'{}'", String::from_utf8_lossy(&self.src[start..end]))
        };
        LoadError { line: self.line, message: format!("input:{}: {} near {}", self.line, msg, near) }
    }

    fn inc_line(&mut self) {
        let old = self.src[self.pos];
        self.pos += 1;
        if let Some(c) = self.cur() {
            if (c == b'\n' || c == b'\r') && c != old {
                self.pos += 1;
            }
        }
        self.line = self.line.saturating_add(1);
    }

    /// Called at '[' or after "--" at '['. Returns number of '=' if a proper
    /// long bracket opener/closer follows, else negative (see llex.c skip_sep).
    fn skip_sep(&mut self) -> i32 {
        let s = self.src[self.pos];
        let mut count = 0;
        self.pos += 1;
        while self.cur() == Some(b'=') {
            self.pos += 1;
            count += 1;
        }
        if self.cur() == Some(s) { count } else { -count - 1 }
    }

    fn read_long(&mut self, sep: i32, start: usize, is_comment: bool) -> LResult<Vec<u8>> {
        let line = self.line;
        self.pos += 1; // second '['
        let mut buf = Vec::new();
        if matches!(self.cur(), Some(b'\n') | Some(b'\r')) {
            self.inc_line();
        }
        loop {
            match self.cur() {
                None => {
                    let what = if is_comment { "comment" } else { "string" };
                    let msg = format!("unfinished long {} (starting at line {})", what, line);
                    return Err(self.lexerr(&msg, start, true));
                }
                Some(b']') => {
                    let save = self.pos;
                    if self.skip_sep() == sep {
                        self.pos += 1;
                        return Ok(buf);
                    }
                    buf.extend_from_slice(&self.src[save..self.pos]);
                }
                Some(b'\n') | Some(b'\r') => {
                    buf.push(b'\n');
                    self.inc_line();
                }
                Some(c) => {
                    buf.push(c);
                    self.pos += 1;
                }
            }
        }
    }

    fn hexval(c: u8) -> Option<u32> { (c as char).to_digit(16) }

    fn read_string(&mut self, del: u8, start: usize) -> LResult<Vec<u8>> {
        self.pos += 1;
        let mut buf = Vec::new();
        loop {
            let c = match self.cur() {
                None => return Err(self.lexerr("unfinished string", start, true)),
                Some(c) => c,
            };
            if c == del {
                self.pos += 1;
                return Ok(buf);
            }
            match c {
                b'\n' | b'\r' => return Err(self.lexerr("unfinished string", start, false)),
                b'\\' => {
                    self.pos += 1;
                    let e = match self.cur() {
                        None => return Err(self.lexerr("unfinished string", start, true)),
                        Some(e) => e,
                    };
                    let simple = match e {
                        b'a' => Some(7u8), b'b' => Some(8), b'f' => Some(12), b'n' => Some(10),
                        b'r' => Some(13), b't' => Some(9), b'v' => Some(11),
                        b'\\' | b'"' | b'\'' => Some(e),
                        _ => None,
                    };
                    if let Some(v) = simple {
                        buf.push(v);
                        self.pos += 1;
                        continue;
                    }
                    match e {
                        b'x' => {
                            self.pos += 1;
                            let mut r = 0;
                            for _ in 0..2 {
                                match self.cur().and_then(Self::hexval) {
                                    Some(h) => { r = r * 16 + h; self.pos += 1; }
                                    None => { self.bump_err(); return Err(self.lexerr("hexadecimal digit expected", start, false)); }
                                }
                            }
                            buf.push(r as u8);
                        }
                        b'u' => self.utf8esc(&mut buf, start)?,
                        b'\n' | b'\r' => { self.inc_line(); buf.push(b'\n'); }
                        b'z' => {
                            self.pos += 1;
                            while let Some(w) = self.cur() {
                                if w == b'\n' || w == b'\r' { self.inc_line(); }
                                else if w == b' ' || (9..=13).contains(&w) { self.pos += 1; }
                                else { break; }
                            }
                        }
                        b'0'..=b'9' => {
                            let mut r: u32 = 0;
                            let mut i = 0;
                            while i < 3 {
                                match self.cur() {
                                    Some(d) if d.is_ascii_digit() => { r = r * 10 + (d - b'0') as u32; self.pos += 1; }
                                    _ => break,
                                }
                                i += 1;
                            }
                            if r > 255 {
                                self.bump_err();
                                return Err(self.lexerr("decimal escape too large", start, false));
                            }
                            buf.push(r as u8);
                        }
                        _ => {
                            self.bump_err();
                            return Err(self.lexerr("invalid escape sequence", start, false));
                        }
                    }
                }
                _ => { buf.push(c); self.pos += 1; }
            }
        }
    }

    /// Include the offending character in the error text, like llex.c does.
    fn bump_err(&mut self) {
        if self.pos < self.src.len() { self.pos += 1; }
    }

    fn utf8esc(&mut self, buf: &mut Vec<u8>, start: usize) -> LResult<()> {
        self.pos += 1; // skip 'u'
        if self.cur() != Some(b'{') {
            self.bump_err();
            return Err(self.lexerr("missing '{' in \\u{xxxx}", start, false));
        }
        self.pos += 1;
        let mut r: u32 = match self.cur().and_then(Self::hexval) {
            Some(h) => h,
            None => { self.bump_err(); return Err(self.lexerr("hexadecimal digit expected", start, false)); }
        };
        self.pos += 1;
        while let Some(h) = self.cur().and_then(Self::hexval) {
            r = r * 16 + h;
            self.pos += 1;
            if r > 0x10FFFF {
                return Err(self.lexerr("UTF-8 value too large", start, false));
            }
        }
        if self.cur() != Some(b'}') {
            self.bump_err();
            return Err(self.lexerr("missing '}' in \\u{xxxx}", start, false));
        }
        self.pos += 1;
        if r < 0x80 { buf.push(r as u8); }
        else if r < 0x800 { buf.push(0xC0 | (r >> 6) as u8); buf.push(0x80 | (r & 0x3F) as u8); }
        else if r < 0x10000 {
            buf.push(0xE0 | (r >> 12) as u8);
            buf.push(0x80 | ((r >> 6) & 0x3F) as u8);
            buf.push(0x80 | (r & 0x3F) as u8);
        } else {
            buf.push(0xF0 | (r >> 18) as u8);
            buf.push(0x80 | ((r >> 12) & 0x3F) as u8);
            buf.push(0x80 | ((r >> 6) & 0x3F) as u8);
            buf.push(0x80 | (r & 0x3F) as u8);
        }
        Ok(())
    }

    fn read_numeral(&mut self, start: usize) -> LResult<Tok> {
        let first = self.src[self.pos];
        self.pos += 1;
        let mut expo: &[u8] = b"Ee";
        if first == b'0' && matches!(self.cur(), Some(b'x') | Some(b'X')) {
            expo = b"Pp";
            self.pos += 1;
        }
        loop {
            match self.cur() {
                Some(c) if expo.contains(&c) => {
                    self.pos += 1;
                    if matches!(self.cur(), Some(b'-') | Some(b'+')) { self.pos += 1; }
                }
                Some(c) if c.is_ascii_hexdigit() || c == b'.' => self.pos += 1,
                _ => break,
            }
        }
        match crate::numfmt::str2number(&self.src[start..self.pos]) {
            Some(crate::numfmt::Num::Int(i)) => Ok(Tok::Int(i)),
            Some(crate::numfmt::Num::Flt(f)) => Ok(Tok::Flt(f)),
            None => Err(self.lexerr("malformed number", start, false)),
        }
    }

    fn llex(&mut self) -> LResult<(Tok, (usize, usize))> {
        loop {
            let start = self.pos;
            let c = match self.cur() {
                None => return Ok((Tok::Eos, (start, start))),
                Some(c) => c,
            };
            let two = |lx: &mut Lexer, t: Tok| { lx.pos += 2; Ok((t, (start, start + 2))) };
            match c {
                b'\n' | b'\r' => self.inc_line(),
                b' ' | 9 | 11 | 12 => self.pos += 1,
                b'-' => {
                    if self.peek_at(1) != Some(b'-') {
                        self.pos += 1;
                        return Ok((Tok::Ch(b'-'), (start, self.pos)));
                    }
                    self.pos += 2;
                    if self.cur() == Some(b'[') {
                        let sep = self.skip_sep();
                        if sep >= 0 {
                            self.read_long(sep, start, true)?;
                            continue;
                        }
                    }
                    while let Some(c) = self.cur() {
                        if c == b'\n' || c == b'\r' { break; }
                        self.pos += 1;
                    }
                }
                b'[' => {
                    let sep = self.skip_sep();
                    if sep >= 0 {
                        let s = self.read_long(sep, start, false)?;
                        return Ok((Tok::Str(s), (start, self.pos)));
                    } else if sep != -1 {
                        return Err(self.lexerr("invalid long string delimiter", start, false));
                    }
                    return Ok((Tok::Ch(b'['), (start, self.pos)));
                }
                b'=' if self.peek_at(1) == Some(b'=') => return two(self, Tok::Eq),
                b'<' if self.peek_at(1) == Some(b'=') => return two(self, Tok::Le),
                b'<' if self.peek_at(1) == Some(b'<') => return two(self, Tok::Shl),
                b'>' if self.peek_at(1) == Some(b'=') => return two(self, Tok::Ge),
                b'>' if self.peek_at(1) == Some(b'>') => return two(self, Tok::Shr),
                b'/' if self.peek_at(1) == Some(b'/') => return two(self, Tok::IDiv),
                b'~' if self.peek_at(1) == Some(b'=') => return two(self, Tok::Ne),
                b':' if self.peek_at(1) == Some(b':') => return two(self, Tok::DbColon),
                b'"' | b'\'' => {
                    let s = self.read_string(c, start)?;
                    return Ok((Tok::Str(s), (start, self.pos)));
                }
                b'.' => {
                    if self.peek_at(1) == Some(b'.') {
                        if self.peek_at(2) == Some(b'.') {
                            self.pos += 3;
                            return Ok((Tok::Dots, (start, self.pos)));
                        }
                        return two(self, Tok::Concat);
                    }
                    if matches!(self.peek_at(1), Some(d) if d.is_ascii_digit()) {
                        let t = self.read_numeral(start)?;
                        return Ok((t, (start, self.pos)));
                    }
                    self.pos += 1;
                    return Ok((Tok::Ch(b'.'), (start, self.pos)));
                }
                b'0'..=b'9' => {
                    let t = self.read_numeral(start)?;
                    return Ok((t, (start, self.pos)));
                }
                _ if c.is_ascii_alphabetic() || c == b'_' => {
                    while matches!(self.cur(), Some(c) if c.is_ascii_alphanumeric() || c == b'_') {
                        self.pos += 1;
                    }
                    let s = std::str::from_utf8(&self.src[start..self.pos]).unwrap_or("");
                    for (n, k) in RESERVED.iter() {
                        if *n == s {
                            return Ok((k.clone(), (start, self.pos)));
                        }
                    }
                    return Ok((Tok::Name(s.to_string()), (start, self.pos)));
                }
                _ => {
                    self.pos += 1;
                    return Ok((Tok::Ch(c), (start, self.pos)));
                }
            }
        }
    }
}
