//! Resolved program representation produced by the parser.
//! Everything here is plain owned data, so `Program` is `Send + Sync`.

pub type ExprId = u32;
/// Index into `Program::consts` (string constants, de-duplicated).
pub type KId = u32;

/// Pseudo label id used as the target of `break`.
pub const BREAK_TARGET: u32 = u32::MAX;
/// Goto target that was never resolved (cannot survive a successful load).
pub const UNRESOLVED: u32 = u32::MAX - 1;

#[derive(Clone, Copy, Debug, PartialEq, Eq)]
pub enum BinOp {
    Add, Sub, Mul, Mod, Pow, Div, IDiv,
    BAnd, BOr, BXor, Shl, Shr,
    Concat,
    Eq, Ne, Lt, Le, Gt, Ge,
}

#[derive(Clone, Copy, Debug, PartialEq, Eq)]
pub enum UnOp {
    Neg, BNot, Not, Len,
}

#[derive(Debug)]
pub enum Field {
    /// positional item `{ e }`
    Pos(ExprId),
    /// `{ [k] = v }` or `{ name = v }`
    Named(ExprId, ExprId),
}

#[derive(Debug)]
pub enum Expr {
    Nil,
    True,
    False,
    Int(i64),
    Flt(f64),
    Str(KId),
    Vararg,
    /// frame slot, variable name
    Local(u16, KId),
    /// index into the running closure's upvalue list
    Upval(u16),
    /// global variable (access through the standard `_ENV`)
    Global(KId),
    /// The standard `_ENV` itself used as a value
    Env,
    Index(ExprId, ExprId),
    Call(ExprId, Box<[ExprId]>),
    Method(ExprId, KId, Box<[ExprId]>),
    Function(u32),
    Bin(BinOp, ExprId, ExprId),
    And(ExprId, ExprId),
    Or(ExprId, ExprId),
    Un(UnOp, ExprId),
    /// parenthesised expression: truncates multiple results to one
    Paren(ExprId),
    Table(Box<[Field]>),
}

#[derive(Debug, Default)]
pub struct Block {
    pub stmts: Vec<Stmt>,
    /// (label id, index of the statement that follows the label)
    pub labels: Vec<(u32, u32)>,
}

#[derive(Debug)]
pub struct Stmt {
    pub line: u32,
    pub kind: StmtKind,
}

#[derive(Debug)]
pub enum StmtKind {
    /// function call used as a statement
    Call(ExprId),
    Local { first: u16, nvars: u16, exprs: Box<[ExprId]> },
    LocalFunc { slot: u16, proto: u32 },
    /// targets are `Local`, `Upval`, `Global` or `Index` expressions
    Assign { targets: Box<[ExprId]>, exprs: Box<[ExprId]> },
    If { arms: Vec<(ExprId, Block)>, orelse: Option<Block> },
    While { cond: ExprId, body: Block },
    Repeat { body: Block, cond: ExprId },
    /// `base` is the slot of the hidden "(for index)"; the visible variable is `base + 3`
    NumFor { base: u16, start: ExprId, limit: ExprId, step: Option<ExprId>, body: Block },
    /// hidden generator/state/control at base..base+2; visible variables from `base + 3`
    GenFor { base: u16, nvars: u16, exprs: Box<[ExprId]>, body: Block },
    Do(Block),
    /// index into `Proto::goto_targets`
    Goto(u32),
    Return(Box<[ExprId]>),
}

#[derive(Debug)]
pub struct UpvalDesc {
    pub name: KId,
    /// true: captures slot `idx` of the enclosing function's frame;
    /// false: captures upvalue `idx` of the enclosing function.
    pub in_stack: bool,
    pub idx: u16,
}

#[derive(Debug)]
pub struct Proto {
    /// line where the function was defined (0 for the main chunk)
    pub line: u32,
    pub nparams: u16,
    pub is_vararg: bool,
    /// frame size: maximum number of simultaneously active locals
    pub nslots: u16,
    pub upvals: Vec<UpvalDesc>,
    pub body: Block,
    /// goto index -> label id (or BREAK_TARGET)
    pub goto_targets: Vec<u32>,
    /// function nesting depth, 0 = main chunk
    pub depth: u32,
}

#[derive(Debug)]
pub struct FreeName {
    pub name: String,
    pub line: u32,
    pub is_write: bool,
    pub depth: u32,
}

#[derive(Debug)]
pub struct Program {
    pub exprs: Vec<Expr>,
    /// source line of every expression (parallel to `exprs`)
    pub lines: Vec<u32>,
    pub protos: Vec<Proto>,
    pub consts: Vec<Vec<u8>>,
    /// `consts[i]` matches ^V[0-9]+$ (compiler temporaries, for the event log)
    pub is_vname: Vec<bool>,
    pub main: u32,
    pub free_names: Vec<FreeName>,
}

impl Program {
    #[inline]
    pub fn expr(&self, id: ExprId) -> &Expr {
        &self.exprs[id as usize]
    }
    #[inline]
    pub fn line(&self, id: ExprId) -> u32 {
        self.lines[id as usize]
    }
    pub fn const_str(&self, k: KId) -> String {
        String::from_utf8_lossy(&self.consts[k as usize]).into_owned()
    }
}
