//! The implemented parts of `os` and `io`: os.time(), os.clock(), io.write, io.stdout/io.stderr:write.
use crate::arith::num_to_bytes;
use crate::ast::Program;
use crate::interp::Interp;
use crate::lib_base::*;
use crate::value::*;

fn os_time(it: &mut Interp, _p: &Program, _n: &Native, a: Args) -> Ret {
    if !arg(&a, 0).is_nil() {
        let _ = it;
        return unsupported("os.time with a table argument");
    }
    let t = std::time::SystemTime::now()
        .duration_since(std::time::UNIX_EPOCH)
        .map(|d| d.as_secs() as i64)
        .unwrap_or(0);
    Ok(vec![Value::Int(t)])
}

fn os_clock(it: &mut Interp, _p: &Program, _n: &Native, _a: Args) -> Ret {
    Ok(vec![Value::Flt(it.start.elapsed().as_secs_f64())])
}

fn collect_pieces(it: &mut Interp, a: &Args, first: usize) -> LResult<Vec<u8>> {
    let mut buf = Vec::new();
    for i in first..a.len() {
        match &a[i] {
            Value::Str(s) => buf.extend_from_slice(&s.b),
            v @ (Value::Int(_) | Value::Flt(_)) => buf.extend_from_slice(&num_to_bytes(v).unwrap_or_default()),
            _ => return Err(it.type_arg_error(a, i, "write", "string")),
        }
    }
    Ok(buf)
}

fn io_write(it: &mut Interp, _p: &Program, _n: &Native, a: Args) -> Ret {
    let buf = collect_pieces(it, &a, 0)?;
    it.write_out(&buf);
    let out = it.globals.borrow().get_str(b"io");
    let f = match &out {
        Value::Table(t) => t.borrow().get_str(b"stdout"),
        _ => Value::Nil,
    };
    Ok(vec![f])
}

/// `file:write(...)` for the io.stdout / io.stderr placeholder objects.
fn file_write(it: &mut Interp, _p: &Program, _n: &Native, a: Args) -> Ret {
    let is_err = match arg(&a, 0) {
        Value::Table(t) => t.borrow().get_str(b"__stderr").truthy(),
        _ => return Err(it.type_arg_error(&a, 0, "write", "FILE*")),
    };
    let buf = collect_pieces(it, &a, 1)?;
    if is_err {
        use std::io::Write;
        let _ = std::io::stderr().write_all(&buf);
    } else {
        it.write_out(&buf);
    }
    Ok(vec![a[0].clone()])
}

fn file_noop(_it: &mut Interp, _p: &Program, _n: &Native, a: Args) -> Ret {
    Ok(vec![arg(&a, 0).clone()])
}

pub fn open(it: &mut Interp) {
    let os = it.new_lib("os");
    it.register(&os, "os.time", os_time);
    it.register(&os, "os.clock", os_clock);
    let io = it.new_lib("io");
    it.register(&io, "io.write", io_write);
    for (name, is_err) in [("stdout", false), ("stderr", true)] {
        let f = it.new_table(crate::table::Table::new());
        it.register(&f, "file.write", file_write);
        it.register(&f, "file.flush", file_noop);
        it.register(&f, "file.setvbuf", file_noop);
        if is_err {
            let _ = f.borrow_mut().set(Value::str(b"__stderr"), Value::Bool(true));
        }
        let _ = io.borrow_mut().set(Value::str(name.as_bytes()), Value::Table(f));
    }
}
