//! Call expressions, multiple results and expression lists.
use crate::ast::*;
use crate::interp::*;
use crate::value::*;

impl Interp {
    /// Evaluate callee and arguments of a `Call`/`Method` expression and resolve `__call`.
    /// The returned callee is always `Value::Func` or `Value::Native`.
    pub fn prepare_call(&mut self, p: &Program, fr: &Frame, e: ExprId) -> LResult<(Value, Vec<Value>)> {
        let line = p.line(e);
        let (mut f, mut args, fe, method) = match p.expr(e) {
            Expr::Call(fe, aes) => {
                let f = self.eval(p, fr, *fe)?;
                let mut args = Vec::with_capacity(aes.len());
                self.eval_list_into(p, fr, aes, &mut args)?;
                (f, args, *fe, None)
            }
            Expr::Method(oe, name, aes) => {
                let o = self.eval(p, fr, *oe)?;
                let key = self.kstr[*name as usize].clone();
                let f = self.index_at(p, fr, *oe, &o, &key, line)?;
                let mut args = Vec::with_capacity(aes.len() + 1);
                args.push(o);
                self.eval_list_into(p, fr, aes, &mut args)?;
                (f, args, *oe, Some(*name))
            }
            _ => return unsupported("internal error: prepare_call on a non-call expression"),
        };
        let mut loops = 0;
        loop {
            match &f {
                Value::Func(_) | Value::Native(_) => return Ok((f, args)),
                _ => {
                    let h = self.metamethod(&f, Mm::Call);
                    if h.is_nil() || loops > 100 {
                        return Err(match method {
                            Some(name) => self.method_call_error(p, name, &f, line),
                            None => self.type_error(p, fr, fe, &f, "call", line),
                        });
                    }
                    args.insert(0, f);
                    f = h;
                    loops += 1;
                }
            }
        }
    }

    /// Invoke a resolved callee from Lua code at `line`.
    pub fn invoke(&mut self, p: &Program, f: Value, args: Vec<Value>, line: u32) -> LResult<Vec<Value>> {
        self.cur_line = line;
        match f {
            Value::Func(c) => self.call_lua(p, c, args),
            Value::Native(n) => {
                self.step()?;
                let saved = self.from_native;
                self.from_native = false;
                let r = self.call_native(p, &n, args);
                self.from_native = saved;
                self.cur_line = line;
                r
            }
            other => self.call_value(p, &other, args),
        }
    }

    pub fn eval_call(&mut self, p: &Program, fr: &Frame, e: ExprId) -> LResult<Vec<Value>> {
        let (f, args) = self.prepare_call(p, fr, e)?;
        self.invoke(p, f, args, p.line(e))
    }

    /// Evaluate `e` keeping all its results (for calls and `...`), appending to `out`.
    pub fn eval_multi(&mut self, p: &Program, fr: &Frame, e: ExprId, out: &mut Vec<Value>) -> LResult<()> {
        match p.expr(e) {
            Expr::Call(..) | Expr::Method(..) => {
                let r = self.eval_call(p, fr, e)?;
                if out.is_empty() {
                    *out = r;
                } else {
                    out.extend(r);
                }
            }
            Expr::Vararg => out.extend(fr.varargs.iter().cloned()),
            _ => out.push(self.eval(p, fr, e)?),
        }
        Ok(())
    }

    /// Expression list: every expression but the last yields one value.
    pub fn eval_list_into(&mut self, p: &Program, fr: &Frame, es: &[ExprId], out: &mut Vec<Value>) -> LResult<()> {
        let n = es.len();
        for (i, &e) in es.iter().enumerate() {
            if i + 1 == n {
                self.eval_multi(p, fr, e, out)?;
            } else {
                let v = self.eval(p, fr, e)?;
                out.push(v);
            }
        }
        Ok(())
    }

    pub fn eval_list(&mut self, p: &Program, fr: &Frame, es: &[ExprId]) -> LResult<Vec<Value>> {
        let mut out = Vec::with_capacity(es.len());
        self.eval_list_into(p, fr, es, &mut out)?;
        Ok(out)
    }
}
