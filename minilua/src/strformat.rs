//! string.format (str_format of lstrlib.c) on top of the C-style float formatters in numfmt.
use crate::arith::to_float;
use crate::ast::Program;
use crate::interp::Interp;
use crate::lib_base::*;
use crate::numfmt::{fmt_e, fmt_f, fmt_g};
use crate::value::*;
use crate::ErrClass;

#[derive(Default)]
struct Spec {
    left: bool,
    plus: bool,
    space: bool,
    alt: bool,
    zero: bool,
    width: usize,
    prec: Option<usize>,
}

/// Apply sign flags and width padding to a formatted number body (body has a leading '-' if negative).
fn finish_number(body: String, sp: &Spec, allow_zero_pad: bool) -> Vec<u8> {
    let (neg, digits) = match body.strip_prefix('-') {
        Some(r) => (true, r.to_string()),
        None => (false, body),
    };
    let sign = if neg { "-" } else if sp.plus { "+" } else if sp.space { " " } else { "" };
    let len = sign.len() + digits.len();
    let mut out = Vec::new();
    if len >= sp.width {
        out.extend_from_slice(sign.as_bytes());
        out.extend_from_slice(digits.as_bytes());
    } else if sp.left {
        out.extend_from_slice(sign.as_bytes());
        out.extend_from_slice(digits.as_bytes());
        out.resize(sp.width, b' ');
    } else if sp.zero && allow_zero_pad {
        out.extend_from_slice(sign.as_bytes());
        out.resize(sp.width - digits.len(), b'0');
        out.extend_from_slice(digits.as_bytes());
    } else {
        out.resize(sp.width - len, b' ');
        out.extend_from_slice(sign.as_bytes());
        out.extend_from_slice(digits.as_bytes());
    }
    out
}

fn pad_bytes(mut s: Vec<u8>, sp: &Spec) -> Vec<u8> {
    if s.len() < sp.width {
        if sp.left {
            s.resize(sp.width, b' ');
        } else {
            let mut out = vec![b' '; sp.width - s.len()];
            out.extend_from_slice(&s);
            return out;
        }
    }
    s
}

fn int_digits(mut s: String, sp: &Spec) -> String {
    if let Some(p) = sp.prec {
        if p == 0 && s == "0" {
            s.clear();
        }
        while s.len() < p {
            s.insert(0, '0');
        }
    }
    s
}

fn add_quoted(out: &mut Vec<u8>, s: &[u8]) {
    out.push(b'"');
    for (i, &c) in s.iter().enumerate() {
        match c {
            b'"' | b'\\' => {
                out.push(b'\\');
                out.push(c);
            }
            b'\n' => out.extend_from_slice(b"\\\n"),
            _ if c == 0 || c.is_ascii_control() => {
                let next_digit = s.get(i + 1).map_or(false, |d| d.is_ascii_digit());
                let t = if next_digit { format!("\\{:03}", c) } else { format!("\\{}", c) };
                out.extend_from_slice(t.as_bytes());
            }
            _ => out.push(c),
        }
    }
    out.push(b'"');
}

pub fn format(it: &mut Interp, p: &Program, a: &Args) -> LResult<Vec<u8>> {
    let fmt = it.check_str(a, 0, "format")?;
    let f = &fmt.b;
    let mut out = Vec::new();
    let mut i = 0;
    let mut argi = 0;
    while i < f.len() {
        let c = f[i];
        i += 1;
        if c != b'%' {
            out.push(c);
            continue;
        }
        if i < f.len() && f[i] == b'%' {
            out.push(b'%');
            i += 1;
            continue;
        }
        // parse spec
        let mut sp = Spec::default();
        let fstart = i;
        while i < f.len() && b"-+ #0".contains(&f[i]) {
            match f[i] {
                b'-' => sp.left = true,
                b'+' => sp.plus = true,
                b' ' => sp.space = true,
                b'#' => sp.alt = true,
                _ => sp.zero = true,
            }
            i += 1;
        }
        if i - fstart >= 6 {
            return Err(it.lib_error(ErrClass::Other, "invalid format (repeated flags)"));
        }
        let mut nd = 0;
        while i < f.len() && f[i].is_ascii_digit() && nd < 2 {
            sp.width = sp.width * 10 + (f[i] - b'0') as usize;
            i += 1;
            nd += 1;
        }
        if i < f.len() && f[i] == b'.' {
            i += 1;
            let mut pr = 0;
            nd = 0;
            while i < f.len() && f[i].is_ascii_digit() && nd < 2 {
                pr = pr * 10 + (f[i] - b'0') as usize;
                i += 1;
                nd += 1;
            }
            sp.prec = Some(pr);
        }
        if i < f.len() && f[i].is_ascii_digit() {
            return Err(it.lib_error(ErrClass::Other, "invalid format (width or precision too long)"));
        }
        let conv = if i < f.len() { f[i] } else { 0 };
        i += 1;
        argi += 1;
        match conv {
            b'c' => {
                let n = it.check_int(a, argi, "format")?;
                out.extend_from_slice(&pad_bytes(vec![n as u8], &sp));
            }
            b'd' | b'i' => {
                let n = it.check_int(a, argi, "format")?;
                let body = int_digits(n.unsigned_abs().to_string(), &sp);
                let body = if n < 0 { format!("-{}", body) } else { body };
                out.extend_from_slice(&finish_number(body, &sp, sp.prec.is_none()));
            }
            b'u' | b'o' | b'x' | b'X' => {
                let n = it.check_int(a, argi, "format")? as u64;
                let s = match conv {
                    b'u' => n.to_string(),
                    b'o' => format!("{:o}", n),
                    b'x' => format!("{:x}", n),
                    _ => format!("{:X}", n),
                };
                let mut body = int_digits(s, &sp);
                if sp.alt && n != 0 {
                    match conv {
                        b'x' => body.insert_str(0, "0x"),
                        b'X' => body.insert_str(0, "0X"),
                        b'o' if !body.starts_with('0') => body.insert(0, '0'),
                        _ => {}
                    }
                }
                let nosign = Spec { plus: false, space: false, ..sp };
                out.extend_from_slice(&finish_number(body, &nosign, nosign.prec.is_none()));
            }
            b'e' | b'E' | b'f' | b'F' | b'g' | b'G' => {
                let x = match to_float(arg(a, argi)) {
                    Some(x) => x,
                    None => return Err(it.type_arg_error(a, argi, "format", "number")),
                };
                let prec = sp.prec.unwrap_or(6);
                let upper = conv.is_ascii_uppercase();
                let mut body = match conv {
                    b'e' | b'E' => fmt_e(x, prec, upper, sp.alt),
                    b'f' | b'F' => fmt_f(x, prec, sp.alt),
                    _ => fmt_g(x, prec, upper, sp.alt),
                };
                if upper && !x.is_finite() {
                    body = body.to_uppercase();
                }
                if x.is_nan() {
                    body = body.trim_start_matches('-').to_string();
                    if x.is_sign_negative() {
                        body.insert(0, '-');
                    }
                }
                out.extend_from_slice(&finish_number(body, &sp, x.is_finite()));
            }
            b'a' | b'A' => return unsupported("string.format('%a')"),
            b'q' => match arg(a, argi) {
                Value::Str(s) => add_quoted(&mut out, &s.b),
                Value::Int(n) => {
                    if *n == i64::MIN {
                        out.extend_from_slice(b"0x8000000000000000");
                    } else {
                        out.extend_from_slice(n.to_string().as_bytes());
                    }
                }
                // real Lua writes floats as hexadecimal floats ("%a")
                Value::Flt(_) => return unsupported("string.format('%q') with a float argument"),
                Value::Nil | Value::Bool(_) => {
                    out.extend_from_slice(&Interp::tostring_basic(arg(a, argi)));
                }
                _ => {
                    if argi >= a.len() {
                        return Err(it.arg_error(argi + 1, "format", "no value"));
                    }
                    return Err(it.arg_error(argi + 1, "format", "value has no literal form"));
                }
            },
            b's' => {
                if argi >= a.len() {
                    return Err(it.arg_error(argi + 1, "format", "no value"));
                }
                let s = match it.tostring(p, &a[argi])? {
                    Value::Str(s) => s,
                    _ => LStr::new(b""),
                };
                if sp.prec.is_none() && s.b.len() >= 100 {
                    out.extend_from_slice(&s.b);
                } else {
                    let mut b = s.b.to_vec();
                    if let Some(pr) = sp.prec {
                        b.truncate(pr);
                    }
                    out.extend_from_slice(&pad_bytes(b, &sp));
                }
            }
            _ => {
                let spec = String::from_utf8_lossy(&f[fstart - 1..i.min(f.len())]).into_owned();
                let msg = format!("invalid option '{}' to 'format'", spec);
                return Err(it.lib_error(ErrClass::Other, &msg));
            }
        }
    }
    Ok(out)
}
