//! table library (ltablib.c of Lua 5.3).
use crate::arith::num_to_bytes;
use crate::ast::Program;
use crate::interp::Interp;
use crate::lib_base::*;
use crate::table::Table;
use crate::value::*;
use crate::ErrClass;

fn first(mut v: Vec<Value>) -> Value {
    if v.is_empty() { Value::Nil } else { v.swap_remove(0) }
}

/// luaL_len on a table (honours __len).
fn tlen(it: &mut Interp, p: &Program, t: &Value) -> LResult<i64> {
    match it.len_of(p, t)? {
        Some(Value::Int(i)) => Ok(i),
        Some(v) => crate::arith::to_integer(&v)
            .ok_or_else(|| it.lib_error(ErrClass::Other, "object length is not an integer")),
        None => Ok(0),
    }
}

fn geti(it: &mut Interp, p: &Program, t: &Value, i: i64) -> LResult<Value> {
    if let Value::Table(tb) = t {
        let b = tb.borrow();
        if b.meta.is_none() {
            return Ok(b.get_int(i));
        }
    }
    it.index(p, t, &Value::Int(i))
}

fn seti(it: &mut Interp, p: &Program, t: &Value, i: i64, v: Value) -> LResult<()> {
    if let Value::Table(tb) = t {
        let plain = tb.borrow().meta.is_none();
        if plain {
            tb.borrow_mut().set_int(i, v);
            return Ok(());
        }
    }
    let line = it.cur_line;
    it.set_index(p, t, Value::Int(i), v, line)
}

fn t_insert(it: &mut Interp, p: &Program, n: &Native, a: Args) -> Ret {
    it.check_table(&a, 0, n.name)?;
    let t = a[0].clone();
    let e = tlen(it, p, &t)?.wrapping_add(1);
    let pos = match a.len() {
        2 => e,
        3 => {
            let pos = it.check_int(&a, 1, n.name)?;
            if !(1 <= pos && pos <= e) {
                return Err(it.arg_error(2, "insert", "position out of bounds"));
            }
            let mut i = e;
            while i > pos {
                let v = geti(it, p, &t, i - 1)?;
                seti(it, p, &t, i, v)?;
                i -= 1;
            }
            pos
        }
        _ => return Err(it.lib_error(ErrClass::Other, "wrong number of arguments to 'insert'")),
    };
    let v = a[a.len() - 1].clone();
    seti(it, p, &t, pos, v)?;
    Ok(vec![])
}

fn t_remove(it: &mut Interp, p: &Program, n: &Native, a: Args) -> Ret {
    it.check_table(&a, 0, n.name)?;
    let t = a[0].clone();
    let size = tlen(it, p, &t)?;
    let mut pos = it.opt_int(&a, 1, n.name, size)?;
    if pos != size && !(1 <= pos && pos <= size.wrapping_add(1)) {
        return Err(it.arg_error(1, "remove", "position out of bounds"));
    }
    let res = geti(it, p, &t, pos)?;
    while pos < size {
        let v = geti(it, p, &t, pos + 1)?;
        seti(it, p, &t, pos, v)?;
        pos += 1;
    }
    seti(it, p, &t, pos, Value::Nil)?;
    Ok(vec![res])
}

fn t_concat(it: &mut Interp, p: &Program, n: &Native, a: Args) -> Ret {
    it.check_table(&a, 0, n.name)?;
    let t = a[0].clone();
    let sep = if arg(&a, 1).is_nil() { LStr::new(b"") } else { it.check_str(&a, 1, n.name)? };
    let i = it.opt_int(&a, 2, n.name, 1)?;
    let j = if arg(&a, 3).is_nil() { tlen(it, p, &t)? } else { it.check_int(&a, 3, n.name)? };
    let mut buf = Vec::new();
    let mut k = i;
    while k <= j {
        let v = geti(it, p, &t, k)?;
        match &v {
            Value::Str(s) => buf.extend_from_slice(&s.b),
            Value::Int(_) | Value::Flt(_) => buf.extend_from_slice(&num_to_bytes(&v).unwrap_or_default()),
            _ => {
                let msg = format!("invalid value (at index {}) in table for 'concat'", k);
                return Err(it.lib_error(ErrClass::Other, &msg));
            }
        }
        if k != j {
            buf.extend_from_slice(&sep.b);
        }
        if k == i64::MAX {
            break;
        }
        k += 1;
    }
    Ok(vec![Value::bytes(buf)])
}

fn t_unpack(it: &mut Interp, p: &Program, n: &Native, a: Args) -> Ret {
    let t = arg(&a, 0).clone();
    let i = it.opt_int(&a, 1, n.name, 1)?;
    let e = if arg(&a, 2).is_nil() {
        match &t {
            Value::Table(_) | Value::Str(_) => tlen(it, p, &t)?,
            _ => return Err(it.type_error_plain(&t, "get length of")),
        }
    } else {
        it.check_int(&a, 2, n.name)?
    };
    if i > e {
        return Ok(vec![]);
    }
    let count = (e as i128) - (i as i128) + 1;
    if count >= 1_000_000 {
        return Err(it.lib_error(ErrClass::Other, "too many results to unpack"));
    }
    let mut out = Vec::with_capacity(count as usize);
    let mut k = i;
    loop {
        let v = match &t {
            Value::Table(_) | Value::Str(_) => geti(it, p, &t, k)?,
            _ => return Err(it.type_error_plain(&t, "index")),
        };
        out.push(v);
        if k == e {
            break;
        }
        k += 1;
    }
    Ok(out)
}

fn t_pack(it: &mut Interp, _p: &Program, _n: &Native, a: Args) -> Ret {
    let mut t = Table::with_capacity(a.len());
    let n = a.len() as i64;
    for (i, v) in a.into_iter().enumerate() {
        t.set_positional(i as i64 + 1, v);
    }
    t.finish_constructor();
    let _ = t.set(Value::str(b"n"), Value::Int(n));
    Ok(vec![Value::Table(it.new_table(t))])
}

fn t_move(it: &mut Interp, p: &Program, n: &Native, a: Args) -> Ret {
    it.check_table(&a, 0, n.name)?;
    let f = it.check_int(&a, 1, n.name)?;
    let e = it.check_int(&a, 2, n.name)?;
    let t = it.check_int(&a, 3, n.name)?;
    let dst = if arg(&a, 4).is_nil() { a[0].clone() } else { it.check_table(&a, 4, n.name).map(Value::Table)? };
    if e >= f {
        if !(f > 0 || e < i64::MAX + f) {
            return Err(it.arg_error(3, "move", "too many elements to move"));
        }
        let cnt = e - f + 1;
        if t > i64::MAX - cnt + 1 {
            return Err(it.arg_error(4, "move", "destination wrap around"));
        }
        let same = a[0].raw_eq(&dst);
        if t > e || t <= f || !same {
            for i in 0..cnt {
                let v = geti(it, p, &a[0], f + i)?;
                seti(it, p, &dst, t + i, v)?;
            }
        } else {
            for i in (0..cnt).rev() {
                let v = geti(it, p, &a[0], f + i)?;
                seti(it, p, &dst, t + i, v)?;
            }
        }
    }
    Ok(vec![dst])
}

// ---- sort: a port of auxsort/partition so that results (also for ties) match ---

struct Sorter<'a> {
    v: Vec<Value>, // 1-based: v[0] unused
    cmp: Option<Value>,
    p: &'a Program,
}

impl<'a> Sorter<'a> {
    fn lt(&mut self, it: &mut Interp, a: &Value, b: &Value) -> LResult<bool> {
        match &self.cmp {
            Some(f) => Ok(first(it.call_value(self.p, f, vec![a.clone(), b.clone()])?).truthy()),
            None => {
                let line = it.cur_line;
                it.less_than(self.p, a, b, line)
            }
        }
    }

    fn lt_idx(&mut self, it: &mut Interp, i: usize, j: usize) -> LResult<bool> {
        let (a, b) = (self.v[i].clone(), self.v[j].clone());
        self.lt(it, &a, &b)
    }

    fn partition(&mut self, it: &mut Interp, lo: usize, up: usize) -> LResult<usize> {
        let mut i = lo;
        let mut j = up - 1;
        let pv = self.v[up - 1].clone();
        loop {
            loop {
                i += 1;
                let ai = self.v[i].clone();
                if !self.lt(it, &ai, &pv)? {
                    break;
                }
                if i == up - 1 {
                    return Err(it.lib_error(ErrClass::Other, "invalid order function for sorting"));
                }
            }
            loop {
                j -= 1;
                let aj = self.v[j].clone();
                if !self.lt(it, &pv, &aj)? {
                    break;
                }
                if j < i {
                    return Err(it.lib_error(ErrClass::Other, "invalid order function for sorting"));
                }
            }
            if j < i {
                self.v.swap(up - 1, i);
                return Ok(i);
            }
            self.v.swap(i, j);
        }
    }

    fn auxsort(&mut self, it: &mut Interp, mut lo: usize, mut up: usize) -> LResult<()> {
        while lo < up {
            if self.lt_idx(it, up, lo)? {
                self.v.swap(lo, up);
            }
            if up - lo == 1 {
                break;
            }
            let p = (lo + up) / 2;
            if self.lt_idx(it, p, lo)? {
                self.v.swap(p, lo);
            } else if self.lt_idx(it, up, p)? {
                self.v.swap(p, up);
            }
            if up - lo == 2 {
                break;
            }
            self.v.swap(p, up - 1);
            let p = self.partition(it, lo, up)?;
            if p - lo < up - p {
                self.auxsort(it, lo, p - 1)?;
                lo = p + 1;
            } else {
                self.auxsort(it, p + 1, up)?;
                up = p - 1;
            }
        }
        Ok(())
    }
}

fn t_sort(it: &mut Interp, p: &Program, n: &Native, a: Args) -> Ret {
    it.check_table(&a, 0, n.name)?;
    let t = a[0].clone();
    let len = tlen(it, p, &t)?;
    if len <= 1 {
        return Ok(vec![]);
    }
    if len >= i32::MAX as i64 {
        return Err(it.arg_error(1, "sort", "array too big"));
    }
    let cmp = match arg(&a, 1) {
        Value::Nil => None,
        f @ (Value::Func(_) | Value::Native(_)) => Some(f.clone()),
        _ => return Err(it.type_arg_error(&a, 1, n.name, "function")),
    };
    let mut v = Vec::with_capacity(len as usize + 1);
    v.push(Value::Nil);
    for i in 1..=len {
        v.push(geti(it, p, &t, i)?);
    }
    let mut s = Sorter { v, cmp, p };
    let r = s.auxsort(it, 1, len as usize);
    for (i, x) in s.v.into_iter().enumerate().skip(1) {
        seti(it, p, &t, i as i64, x)?;
    }
    r.map(|_| vec![])
}

pub fn open(it: &mut Interp) {
    let t = it.new_lib("table");
    let fns: [(&'static str, NativeFnPtr); 7] = [
        ("table.insert", t_insert), ("table.remove", t_remove), ("table.concat", t_concat),
        ("table.unpack", t_unpack), ("table.pack", t_pack), ("table.sort", t_sort), ("table.move", t_move),
    ];
    for (name, f) in fns {
        it.register(&t, name, f);
    }
}
