//! `lua` stand-in: `lua [FILE|-]`.
use std::io::Read;

fn main() {
    let args: Vec<String> = std::env::args().skip(1).collect();
    let mut src = Vec::new();
    let res = match args.first().map(|s| s.as_str()) {
        None | Some("-") => std::io::stdin().read_to_end(&mut src).map(|_| ()),
        Some(path) => std::fs::read(path).map(|b| src = b),
    };
    if let Err(e) = res {
        eprintln!("lua: cannot open {}: {}", args.first().map(|s| s.as_str()).unwrap_or("stdin"), e);
        std::process::exit(1);
    }
    let text = String::from_utf8_lossy(&src).into_owned();
    let max_steps = std::env::var("MINILUA_MAX_STEPS").ok().and_then(|s| s.parse::<u64>().ok()).unwrap_or(u64::MAX);
    let opts = minilua::RunOptions { max_steps, capture_output: false, ..Default::default() };
    let result = minilua::run_source(&text, &opts);
    {
        use std::io::Write;
        let _ = std::io::stdout().flush();
    }
    match result {
        Err(e) => {
            eprintln!("lua: {}", e.message);
            std::process::exit(1);
        }
        Ok(r) => match r.outcome {
            minilua::Outcome::Done => {}
            minilua::Outcome::Error { message, .. } => {
                eprintln!("lua: {}", message);
                std::process::exit(1);
            }
            minilua::Outcome::StepLimit => {
                eprintln!("minilua: step limit exhausted after {} steps", r.steps);
                std::process::exit(2);
            }
            minilua::Outcome::Unsupported(m) => {
                eprintln!("minilua: unsupported: {}", m);
                std::process::exit(2);
            }
        },
    }
}
