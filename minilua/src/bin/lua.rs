fn main(){}
