//! Statement parsing (lparser.c: statement and friends) and the chunk entry point.
use crate::ast::*;
use crate::lexer::Tok;
use crate::parser::*;

impl<'a> Parser<'a> {
    fn block_follow(&self, withuntil: bool) -> bool {
        match self.lx.t {
            Tok::Else | Tok::Elseif | Tok::End | Tok::Eos => true,
            Tok::Until => withuntil,
            _ => false,
        }
    }

    fn begin_block(&mut self) {
        self.cur().building.push(Block::default());
    }

    fn end_block(&mut self) -> Block {
        self.cur().building.pop().unwrap_or_default()
    }

    pub fn statlist(&mut self) -> PResult<()> {
        while !self.block_follow(true) {
            if self.lx.t == Tok::Return {
                return self.statement();
            }
            self.statement()?;
        }
        Ok(())
    }

    fn block(&mut self) -> PResult<Block> {
        self.enterblock(false);
        self.begin_block();
        self.statlist()?;
        let b = self.end_block();
        self.leaveblock()?;
        Ok(b)
    }

    fn is_var(&self, e: ExprId) -> bool {
        matches!(self.prog.expr(e), Expr::Local(..) | Expr::Upval(_) | Expr::Global(_) | Expr::Index(..) | Expr::Env)
    }

    fn mark_write(&mut self, e: ExprId) {
        if let Some(&i) = self.free_ref.get(&e) {
            self.prog.free_names[i].is_write = true;
        }
    }

    fn gotostat(&mut self, line: u32) -> PResult<()> {
        let name = if self.testnext(&Tok::Goto)? {
            self.str_checkname()?
        } else {
            self.lx.next()?; // skip 'break'
            "break".to_string()
        };
        let g = self.new_goto(&name, line)?;
        self.push_stmt(line, StmtKind::Goto(g));
        Ok(())
    }

    fn labelstat(&mut self, name: &str, line: u32) -> PResult<()> {
        let (idx, id) = self.new_label(name, line)?;
        self.checknext(&Tok::DbColon)?;
        if let Some(b) = self.cur().building.last_mut() {
            let at = b.stmts.len() as u32;
            b.labels.push((id, at));
        }
        while self.lx.t == Tok::Ch(b';') || self.lx.t == Tok::DbColon {
            self.statement()?;
        }
        let at_end = self.block_follow(false);
        self.finish_label(idx, at_end)
    }

    fn test_then_block(&mut self) -> PResult<(ExprId, Block)> {
        self.lx.next()?; // skip IF or ELSEIF
        let cond = self.expr()?;
        self.checknext(&Tok::Then)?;
        self.enterblock(false);
        self.begin_block();
        if self.lx.t == Tok::Goto || self.lx.t == Tok::Break {
            let l = self.lx.line;
            self.gotostat(l)?;
        }
        self.statlist()?;
        let b = self.end_block();
        self.leaveblock()?;
        Ok((cond, b))
    }

    fn ifstat(&mut self, line: u32) -> PResult<()> {
        let mut arms = vec![self.test_then_block()?];
        while self.lx.t == Tok::Elseif {
            arms.push(self.test_then_block()?);
        }
        let orelse = if self.testnext(&Tok::Else)? { Some(self.block()?) } else { None };
        self.check_match(&Tok::End, &Tok::If, line)?;
        self.push_stmt(line, StmtKind::If { arms, orelse });
        Ok(())
    }

    fn whilestat(&mut self, line: u32) -> PResult<()> {
        self.lx.next()?;
        let cond = self.expr()?;
        self.enterblock(true);
        self.checknext(&Tok::Do)?;
        let body = self.block()?;
        self.check_match(&Tok::End, &Tok::While, line)?;
        self.leaveblock()?;
        self.push_stmt(line, StmtKind::While { cond, body });
        Ok(())
    }

    fn repeatstat(&mut self, line: u32) -> PResult<()> {
        self.enterblock(true);
        self.enterblock(false);
        self.lx.next()?;
        self.begin_block();
        self.statlist()?;
        self.check_match(&Tok::Until, &Tok::Repeat, line)?;
        let cond = self.expr()?;
        self.leaveblock()?;
        let body = self.end_block();
        self.leaveblock()?;
        self.push_stmt(line, StmtKind::Repeat { body, cond });
        Ok(())
    }

    fn forbody(&mut self, nvars: usize) -> PResult<Block> {
        self.adjust_localvars(3);
        self.checknext(&Tok::Do)?;
        self.enterblock(false);
        self.adjust_localvars(nvars);
        let b = self.block()?;
        self.leaveblock()?;
        Ok(b)
    }

    fn forstat(&mut self, line: u32) -> PResult<()> {
        self.enterblock(true);
        self.lx.next()?;
        let n1 = self.str_checkname()?;
        let base = self.cur().nactvar;
        let kind = match self.lx.t {
            Tok::Ch(b'=') => {
                self.new_localvar("(for index)")?;
                self.new_localvar("(for limit)")?;
                self.new_localvar("(for step)")?;
                self.new_localvar(&n1)?;
                self.lx.next()?;
                let start = self.expr()?;
                self.checknext(&Tok::Ch(b','))?;
                let limit = self.expr()?;
                let step = if self.testnext(&Tok::Ch(b','))? { Some(self.expr()?) } else { None };
                let body = self.forbody(1)?;
                StmtKind::NumFor { base, start, limit, step, body }
            }
            Tok::Ch(b',') | Tok::In => {
                self.new_localvar("(for generator)")?;
                self.new_localvar("(for state)")?;
                self.new_localvar("(for control)")?;
                self.new_localvar(&n1)?;
                let mut nvars = 1;
                while self.testnext(&Tok::Ch(b','))? {
                    let n = self.str_checkname()?;
                    self.new_localvar(&n)?;
                    nvars += 1;
                }
                self.checknext(&Tok::In)?;
                let exprs = self.explist()?.into_boxed_slice();
                let body = self.forbody(nvars)?;
                StmtKind::GenFor { base, nvars: nvars as u16, exprs, body }
            }
            _ => return Err(self.syntax_error("'=' or 'in' expected")),
        };
        self.check_match(&Tok::End, &Tok::For, line)?;
        self.leaveblock()?;
        self.push_stmt(line, kind);
        Ok(())
    }

    fn funcstat(&mut self, line: u32) -> PResult<()> {
        self.lx.next()?; // skip FUNCTION
        let l0 = self.lx.line;
        let n = self.str_checkname()?;
        let mut v = self.singlevar(&n, l0)?;
        let mut ismethod = false;
        while self.lx.t == Tok::Ch(b'.') || self.lx.t == Tok::Ch(b':') {
            ismethod = self.lx.t == Tok::Ch(b':');
            self.lx.next()?;
            let f = self.str_checkname()?;
            let l = self.lx.lastline;
            let k = self.konst(f.as_bytes());
            let ke = self.add_expr(Expr::Str(k), l);
            v = self.add_expr(Expr::Index(v, ke), l);
            if ismethod {
                break;
            }
        }
        let p = self.body(ismethod, line)?;
        let f = self.add_expr(Expr::Function(p), line);
        self.mark_write(v);
        self.push_stmt(line, StmtKind::Assign { targets: vec![v].into_boxed_slice(), exprs: vec![f].into_boxed_slice() });
        Ok(())
    }

    fn localfunc(&mut self, line: u32) -> PResult<()> {
        let n = self.str_checkname()?;
        self.new_localvar(&n)?;
        self.adjust_localvars(1);
        let slot = self.cur().nactvar - 1;
        let l = self.lx.line;
        let proto = self.body(false, l)?;
        self.push_stmt(line, StmtKind::LocalFunc { slot, proto });
        Ok(())
    }

    fn localstat(&mut self, line: u32) -> PResult<()> {
        let mut nvars = 0;
        loop {
            let n = self.str_checkname()?;
            self.new_localvar(&n)?;
            nvars += 1;
            if !self.testnext(&Tok::Ch(b','))? {
                break;
            }
        }
        let exprs = if self.testnext(&Tok::Ch(b'='))? { self.explist()? } else { Vec::new() };
        let first = self.cur().nactvar;
        self.adjust_localvars(nvars);
        self.push_stmt(line, StmtKind::Local { first, nvars: nvars as u16, exprs: exprs.into_boxed_slice() });
        Ok(())
    }

    fn exprstat(&mut self, line: u32) -> PResult<()> {
        let v = self.suffixedexp()?;
        if self.lx.t == Tok::Ch(b'=') || self.lx.t == Tok::Ch(b',') {
            let mut targets = vec![v];
            loop {
                let last = *targets.last().unwrap();
                if !self.is_var(last) {
                    return Err(self.syntax_error("syntax error"));
                }
                if self.testnext(&Tok::Ch(b','))? {
                    let nv = self.suffixedexp()?;
                    if targets.len() as u32 + self.level > MAXCCALLS {
                        return Err(self.error_limit(self.fs.len() - 1, MAXCCALLS as usize, "C levels"));
                    }
                    targets.push(nv);
                } else {
                    self.checknext(&Tok::Ch(b'='))?;
                    break;
                }
            }
            let exprs = self.explist()?;
            for &t in &targets {
                self.mark_write(t);
            }
            self.push_stmt(line, StmtKind::Assign { targets: targets.into_boxed_slice(), exprs: exprs.into_boxed_slice() });
        } else {
            if !matches!(self.prog.expr(v), Expr::Call(..) | Expr::Method(..)) {
                return Err(self.syntax_error("syntax error"));
            }
            self.push_stmt(line, StmtKind::Call(v));
        }
        Ok(())
    }

    fn retstat(&mut self, line: u32) -> PResult<()> {
        let exprs = if self.block_follow(true) || self.lx.t == Tok::Ch(b';') { Vec::new() } else { self.explist()? };
        self.testnext(&Tok::Ch(b';'))?;
        self.push_stmt(line, StmtKind::Return(exprs.into_boxed_slice()));
        Ok(())
    }

    pub fn statement(&mut self) -> PResult<()> {
        let line = self.lx.line;
        self.enterlevel()?;
        match self.lx.t {
            Tok::Ch(b';') => self.lx.next()?,
            Tok::If => self.ifstat(line)?,
            Tok::While => self.whilestat(line)?,
            Tok::Do => {
                self.lx.next()?;
                let b = self.block()?;
                self.check_match(&Tok::End, &Tok::Do, line)?;
                self.push_stmt(line, StmtKind::Do(b));
            }
            Tok::For => self.forstat(line)?,
            Tok::Repeat => self.repeatstat(line)?,
            Tok::Function => self.funcstat(line)?,
            Tok::Local => {
                self.lx.next()?;
                if self.testnext(&Tok::Function)? { self.localfunc(line)? } else { self.localstat(line)? }
            }
            Tok::DbColon => {
                self.lx.next()?;
                let n = self.str_checkname()?;
                self.labelstat(&n, line)?;
            }
            Tok::Return => {
                self.lx.next()?;
                self.retstat(line)?;
            }
            Tok::Break | Tok::Goto => self.gotostat(line)?,
            _ => self.exprstat(line)?,
        }
        self.leavelevel();
        Ok(())
    }

    /// mainfunc: parse a whole chunk.
    pub fn parse_chunk(mut self) -> PResult<Program> {
        self.open_func(0);
        self.cur().proto.is_vararg = true;
        let k = self.konst(b"_ENV");
        let fs = self.cur();
        fs.proto.upvals.push(UpvalDesc { name: k, in_stack: true, idx: 0 });
        fs.upinfo.push(UpvalInfo { name: "_ENV".to_string(), std_env: true });
        self.statlist()?;
        self.check(&Tok::Eos)?;
        let main = self.close_func()?;
        self.prog.main = main;
        Ok(self.prog)
    }
}
