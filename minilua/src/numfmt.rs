//! Number <-> text conversions (lobject.c: luaO_str2num, tostringbuff; C printf %g/%e/%f).

#[derive(Clone, Copy, Debug, PartialEq)]
pub enum Num {
    Int(i64),
    Flt(f64),
}

fn is_space(c: u8) -> bool {
    c == b' ' || (9..=13).contains(&c)
}

fn trim(s: &[u8]) -> &[u8] {
    let mut a = 0;
    let mut b = s.len();
    while a < b && is_space(s[a]) { a += 1; }
    while b > a && is_space(s[b - 1]) { b -= 1; }
    &s[a..b]
}

/// l_str2int
fn str2int(s: &[u8]) -> Option<i64> {
    let s = trim(s);
    let mut i = 0;
    let mut neg = false;
    if i < s.len() && (s[i] == b'-' || s[i] == b'+') {
        neg = s[i] == b'-';
        i += 1;
    }
    let mut a: u64 = 0;
    let mut empty = true;
    if i + 1 < s.len() && s[i] == b'0' && (s[i + 1] == b'x' || s[i + 1] == b'X') {
        i += 2;
        while i < s.len() {
            match (s[i] as char).to_digit(16) {
                Some(d) => { a = a.wrapping_mul(16).wrapping_add(d as u64); empty = false; i += 1; }
                None => break,
            }
        }
    } else {
        while i < s.len() && s[i].is_ascii_digit() {
            let d = (s[i] - b'0') as u64;
            let maxby10 = (i64::MAX as u64) / 10;
            let maxlastd = (i64::MAX as u64) % 10;
            if a > maxby10 || (a == maxby10 && d > maxlastd + neg as u64) {
                return None; // does not fit: caller falls back to float
            }
            a = a * 10 + d;
            empty = false;
            i += 1;
        }
    }
    if empty || i != s.len() {
        return None;
    }
    Some(if neg { (0u64.wrapping_sub(a)) as i64 } else { a as i64 })
}

fn ldexp(mut r: f64, mut e: i32) -> f64 {
    while e > 1000 { r *= 2f64.powi(1000); e -= 1000; if r.is_infinite() { return r; } }
    while e < -1000 { r *= 2f64.powi(-1000); e += 1000; if r == 0.0 { return r; } }
    r * 2f64.powi(e)
}

/// lua_strx2number; `s` is already trimmed and has no sign. Returns None if malformed.
fn strx2number(s: &[u8]) -> Option<f64> {
    let mut i = 2; // skip 0x
    let mut r = 0.0f64;
    let (mut sigdig, mut nosigdig, mut e, mut hasdot) = (0i32, 0i32, 0i32, false);
    while i < s.len() {
        let c = s[i];
        if c == b'.' {
            if hasdot { break; }
            hasdot = true;
        } else if let Some(d) = (c as char).to_digit(16) {
            if sigdig == 0 && c == b'0' {
                nosigdig += 1;
            } else {
                sigdig += 1;
                if sigdig <= 30 { r = r * 16.0 + d as f64; } else { e += 1; }
            }
            if hasdot { e -= 1; }
        } else {
            break;
        }
        i += 1;
    }
    if nosigdig + sigdig == 0 {
        return None;
    }
    e = e.saturating_mul(4);
    if i < s.len() && (s[i] == b'p' || s[i] == b'P') {
        i += 1;
        let mut neg1 = false;
        if i < s.len() && (s[i] == b'-' || s[i] == b'+') { neg1 = s[i] == b'-'; i += 1; }
        if i >= s.len() || !s[i].is_ascii_digit() { return None; }
        let mut exp1: i32 = 0;
        while i < s.len() && s[i].is_ascii_digit() {
            exp1 = exp1.saturating_mul(10).saturating_add((s[i] - b'0') as i32);
            i += 1;
        }
        if neg1 { exp1 = -exp1; }
        e = e.saturating_add(exp1);
    }
    if i != s.len() { return None; }
    Some(ldexp(r, e.clamp(-100000, 100000)))
}

/// l_str2d
fn str2d(s: &[u8]) -> Option<f64> {
    let s = trim(s);
    if s.iter().any(|&c| c == b'n' || c == b'N') { return None; }
    let mut i = 0;
    let mut neg = false;
    if i < s.len() && (s[i] == b'-' || s[i] == b'+') { neg = s[i] == b'-'; i += 1; }
    let body = &s[i..];
    let v = if body.len() >= 2 && body[0] == b'0' && (body[1] == b'x' || body[1] == b'X') {
        strx2number(body)?
    } else {
        // validate: digits [. digits] [eE [+-] digits], at least one mantissa digit
        let mut j = 0;
        let mut nd = 0;
        while j < body.len() && body[j].is_ascii_digit() { j += 1; nd += 1; }
        if j < body.len() && body[j] == b'.' {
            j += 1;
            while j < body.len() && body[j].is_ascii_digit() { j += 1; nd += 1; }
        }
        if nd == 0 { return None; }
        if j < body.len() && (body[j] == b'e' || body[j] == b'E') {
            j += 1;
            if j < body.len() && (body[j] == b'-' || body[j] == b'+') { j += 1; }
            let st = j;
            while j < body.len() && body[j].is_ascii_digit() { j += 1; }
            if st == j { return None; }
        }
        if j != body.len() { return None; }
        let txt = std::str::from_utf8(body).ok()?;
        let mut owned;
        let t: &str = if txt.starts_with('.') { owned = String::from("0"); owned.push_str(txt); &owned } else { txt };
        t.parse::<f64>().ok()?
    };
    Some(if neg { -v } else { v })
}

/// luaO_str2num: whole string must be a numeral (surrounding whitespace allowed).
pub fn str2number(s: &[u8]) -> Option<Num> {
    if let Some(i) = str2int(s) {
        return Some(Num::Int(i));
    }
    str2d(s).map(Num::Flt)
}

/// Float -> integer if it has an exact integer representation (luaV_tointeger mode 0).
pub fn float_to_int(f: f64) -> Option<i64> {
    if f.floor() == f && f >= -9223372036854775808.0 && f < 9223372036854775808.0 {
        Some(f as i64)
    } else {
        None
    }
}

fn nonfinite(x: f64, upper: bool) -> Option<String> {
    let s = if x.is_nan() {
        if x.is_sign_negative() { "-nan" } else { "nan" }
    } else if x == f64::INFINITY { "inf" } else if x == f64::NEG_INFINITY { "-inf" } else { return None };
    Some(if upper { s.to_uppercase() } else { s.to_string() })
}

/// Split Rust's `{:.*e}` output into (mantissa text, exponent).
fn sci_parts(x: f64, prec: usize) -> (String, i32) {
    let s = format!("{:.*e}", prec, x);
    match s.find('e') {
        Some(p) => (s[..p].to_string(), s[p + 1..].parse::<i32>().unwrap_or(0)),
        None => (s, 0),
    }
}

/// C `%.{prec}e`
pub fn fmt_e(x: f64, prec: usize, upper: bool, alt: bool) -> String {
    if let Some(s) = nonfinite(x, upper) { return s; }
    let (mut m, e) = sci_parts(x, prec);
    if alt && prec == 0 { m.push('.'); }
    let sign = if e < 0 { '-' } else { '+' };
    format!("{}{}{}{:02}", m, if upper { 'E' } else { 'e' }, sign, e.abs())
}

/// C `%.{prec}f`
pub fn fmt_f(x: f64, prec: usize, alt: bool) -> String {
    if let Some(s) = nonfinite(x, false) { return s; }
    let mut s = format!("{:.*}", prec, x);
    if alt && prec == 0 { s.push('.'); }
    s
}

fn strip_zeros(s: &mut String) {
    if s.contains('.') {
        while s.ends_with('0') { s.pop(); }
        if s.ends_with('.') { s.pop(); }
    }
}

/// C `%.{prec}g`
pub fn fmt_g(x: f64, prec: usize, upper: bool, alt: bool) -> String {
    if let Some(s) = nonfinite(x, upper) { return s; }
    let p = if prec == 0 { 1 } else { prec };
    let (mut m, e) = sci_parts(x, p - 1);
    if e < -4 || e >= p as i32 {
        if !alt { strip_zeros(&mut m); }
        let sign = if e < 0 { '-' } else { '+' };
        format!("{}{}{}{:02}", m, if upper { 'E' } else { 'e' }, sign, e.abs())
    } else {
        let decimals = (p as i32 - 1 - e).max(0) as usize;
        let mut s = format!("{:.*}", decimals, x);
        if !alt { strip_zeros(&mut s); } else if decimals == 0 { s.push('.'); }
        s
    }
}

/// `tostring` for floats: "%.14g" plus ".0" if it looks like an integer.
pub fn float_to_string(x: f64) -> String {
    let mut s = fmt_g(x, 14, false, false);
    if s.bytes().all(|c| c == b'-' || c.is_ascii_digit()) {
        s.push_str(".0");
    }
    s
}

/// C `%a` is not supported; see strformat.
#[cfg(test)]
mod tests {
    use super::*;
    #[test]
    fn g14() {
        assert_eq!(float_to_string(2.0), "2.0");
        assert_eq!(float_to_string(1e100), "1e+100");
        assert_eq!(float_to_string(0.1), "0.1");
        assert_eq!(float_to_string(-0.0), "-0.0");
        assert_eq!(float_to_string(1e15), "1e+15");
        assert_eq!(float_to_string(1e14), "1e+14");
        assert_eq!(float_to_string(1e13), "10000000000000.0");
        assert_eq!(float_to_string(0.1 + 0.2), "0.3");
        assert_eq!(float_to_string(1.0 / 3.0), "0.33333333333333");
        assert_eq!(float_to_string(1e-5), "1e-05");
        assert_eq!(float_to_string(0.0001), "0.0001");
        assert_eq!(float_to_string(123456.789e3), "123456789.0");
        assert_eq!(float_to_string(f64::INFINITY), "inf");
        assert_eq!(float_to_string(9007199254740992.0), "9.007199254741e+15");
        assert_eq!(float_to_string(3.14159265358979), "3.1415926535898");
        assert_eq!(fmt_g(100000.0, 6, false, false), "100000");
        assert_eq!(fmt_g(1000000.0, 6, false, false), "1e+06");
        assert_eq!(fmt_g(0.5, 6, false, false), "0.5");
        assert_eq!(fmt_e(12345.678, 2, false, false), "1.23e+04");
        assert_eq!(fmt_f(3.14159, 2, false), "3.14");
    }
    #[test]
    fn parse() {
        assert_eq!(str2number(b"0x10"), Some(Num::Int(16)));
        assert_eq!(str2number(b" 10 "), Some(Num::Int(10)));
        assert_eq!(str2number(b"1e5"), Some(Num::Flt(100000.0)));
        assert_eq!(str2number(b".5"), Some(Num::Flt(0.5)));
        assert_eq!(str2number(b"3."), Some(Num::Flt(3.0)));
        assert_eq!(str2number(b"0x.8p1"), Some(Num::Flt(1.0)));
        assert_eq!(str2number(b"0xA.8"), Some(Num::Flt(10.5)));
        assert_eq!(str2number(b"9223372036854775807"), Some(Num::Int(i64::MAX)));
        assert_eq!(str2number(b"9223372036854775808"), Some(Num::Flt(9223372036854775808.0)));
        assert_eq!(str2number(b"0xffffffffffffffff"), Some(Num::Int(-1)));
        assert_eq!(str2number(b"1e"), None);
        assert_eq!(str2number(b"inf"), None);
        assert_eq!(str2number(b"nan"), None);
        assert_eq!(str2number(b""), None);
        assert_eq!(str2number(b"0x"), None);
        assert_eq!(str2number(b"1 2"), None);
        assert_eq!(str2number(b"-0x10"), Some(Num::Int(-16)));
    }
}
