//! math library (lmathlib.c of Lua 5.3, without the LUA_COMPAT_MATHLIB functions).
use crate::arith::*;
use crate::ast::Program;
use crate::interp::Interp;
use crate::lib_base::*;
use crate::numfmt::{float_to_int, Num};
use crate::value::*;

fn flt_or_int(f: f64) -> Value {
    match float_to_int(f) {
        Some(i) => Value::Int(i),
        None => Value::Flt(f),
    }
}

fn m_floor(it: &mut Interp, _p: &Program, n: &Native, a: Args) -> Ret {
    Ok(vec![match it.check_num(&a, 0, n.name)? {
        Num::Int(i) => Value::Int(i),
        Num::Flt(f) => flt_or_int(f.floor()),
    }])
}

fn m_ceil(it: &mut Interp, _p: &Program, n: &Native, a: Args) -> Ret {
    Ok(vec![match it.check_num(&a, 0, n.name)? {
        Num::Int(i) => Value::Int(i),
        Num::Flt(f) => flt_or_int(f.ceil()),
    }])
}

fn m_abs(it: &mut Interp, _p: &Program, n: &Native, a: Args) -> Ret {
    Ok(vec![match it.check_num(&a, 0, n.name)? {
        Num::Int(i) => Value::Int(i.wrapping_abs()),
        Num::Flt(f) => Value::Flt(f.abs()),
    }])
}

macro_rules! unary_float {
    ($name:ident, $op:expr) => {
        fn $name(it: &mut Interp, _p: &Program, n: &Native, a: Args) -> Ret {
            let x = it.check_float(&a, 0, n.name)?;
            let f: fn(f64) -> f64 = $op;
            Ok(vec![Value::Flt(f(x))])
        }
    };
}

unary_float!(m_sqrt, |x| x.sqrt());
unary_float!(m_sin, |x| x.sin());
unary_float!(m_cos, |x| x.cos());
unary_float!(m_tan, |x| x.tan());
unary_float!(m_asin, |x| x.asin());
unary_float!(m_acos, |x| x.acos());
unary_float!(m_exp, |x| x.exp());

fn m_atan(it: &mut Interp, _p: &Program, n: &Native, a: Args) -> Ret {
    let y = it.check_float(&a, 0, n.name)?;
    let x = if arg(&a, 1).is_nil() { 1.0 } else { it.check_float(&a, 1, n.name)? };
    Ok(vec![Value::Flt(y.atan2(x))])
}

fn m_log(it: &mut Interp, _p: &Program, n: &Native, a: Args) -> Ret {
    let x = it.check_float(&a, 0, n.name)?;
    let r = if arg(&a, 1).is_nil() {
        x.ln()
    } else {
        let b = it.check_float(&a, 1, n.name)?;
        if b == 2.0 { x.log2() } else if b == 10.0 { x.log10() } else { x.ln() / b.ln() }
    };
    Ok(vec![Value::Flt(r)])
}

fn m_fmod(it: &mut Interp, _p: &Program, n: &Native, a: Args) -> Ret {
    let x = it.check_num(&a, 0, n.name)?;
    let y = it.check_num(&a, 1, n.name)?;
    if let (Num::Int(m), Num::Int(d)) = (x, y) {
        if d == 0 {
            return Err(it.arg_error(2, "fmod", "zero"));
        }
        return Ok(vec![Value::Int(if d == -1 { 0 } else { m % d })]);
    }
    let (fx, fy) = (it.check_float(&a, 0, n.name)?, it.check_float(&a, 1, n.name)?);
    Ok(vec![Value::Flt(fx % fy)])
}

fn m_modf(it: &mut Interp, _p: &Program, n: &Native, a: Args) -> Ret {
    if let Value::Int(i) = arg(&a, 0) {
        return Ok(vec![Value::Int(*i), Value::Flt(0.0)]);
    }
    let d = it.check_float(&a, 0, n.name)?;
    let ip = if d < 0.0 { d.ceil() } else { d.floor() };
    let frac = if ip == d { 0.0 } else { d - ip };
    Ok(vec![Value::Flt(ip), Value::Flt(frac)])
}

fn m_tointeger(it: &mut Interp, _p: &Program, n: &Native, a: Args) -> Ret {
    match to_integer(arg(&a, 0)) {
        Some(i) => Ok(vec![Value::Int(i)]),
        None => {
            it.check_any(&a, 0, n.name)?;
            Ok(vec![Value::Nil])
        }
    }
}

fn m_type(it: &mut Interp, _p: &Program, n: &Native, a: Args) -> Ret {
    it.check_any(&a, 0, n.name)?;
    Ok(vec![match &a[0] {
        Value::Int(_) => Value::str(b"integer"),
        Value::Flt(_) => Value::str(b"float"),
        _ => Value::Nil,
    }])
}

fn minmax(it: &mut Interp, n: &Native, a: Args, want_max: bool) -> Ret {
    it.check_num(&a, 0, n.name)?;
    let mut best = 0;
    for i in 1..a.len() {
        it.check_num(&a, i, n.name)?;
        let better = if want_max { num_lt(&a[best], &a[i]) } else { num_lt(&a[i], &a[best]) };
        if better == Some(true) {
            best = i;
        }
    }
    // numeric strings are accepted by luaL_checknumber and converted
    Ok(vec![match to_num(&a[best]) {
        Some(Num::Int(i)) => Value::Int(i),
        Some(Num::Flt(f)) => Value::Flt(f),
        None => Value::Nil,
    }])
}

fn m_max(it: &mut Interp, _p: &Program, n: &Native, a: Args) -> Ret {
    minmax(it, n, a, true)
}

fn m_min(it: &mut Interp, _p: &Program, n: &Native, a: Args) -> Ret {
    minmax(it, n, a, false)
}

fn m_ult(it: &mut Interp, _p: &Program, n: &Native, a: Args) -> Ret {
    let x = it.check_int(&a, 0, n.name)?;
    let y = it.check_int(&a, 1, n.name)?;
    Ok(vec![Value::Bool((x as u64) < (y as u64))])
}

fn next_random(it: &mut Interp) -> f64 {
    // xorshift64*; deterministic for a given seed
    let mut x = it.rng;
    if x == 0 {
        x = 0x2545_F491_4F6C_DD1D;
    }
    x ^= x >> 12;
    x ^= x << 25;
    x ^= x >> 27;
    it.rng = x;
    let r = x.wrapping_mul(0x2545_F491_4F6C_DD1D);
    (r >> 11) as f64 / (1u64 << 53) as f64
}

fn m_random(it: &mut Interp, _p: &Program, n: &Native, a: Args) -> Ret {
    let r = next_random(it);
    let (low, up) = match a.len() {
        0 => return Ok(vec![Value::Flt(r)]),
        1 => (1, it.check_int(&a, 0, n.name)?),
        2 => (it.check_int(&a, 0, n.name)?, it.check_int(&a, 1, n.name)?),
        _ => return Err(it.lib_error(crate::ErrClass::Other, "wrong number of arguments")),
    };
    if low > up {
        return Err(it.arg_error(a.len(), "random", "interval is empty"));
    }
    if !(low >= 0 || up <= i64::MAX + low) {
        return Err(it.arg_error(a.len(), "random", "interval too large"));
    }
    let span = (up.wrapping_sub(low)) as f64 + 1.0;
    let off = (r * span) as i64;
    Ok(vec![Value::Int(low.wrapping_add(off))])
}

fn m_randomseed(it: &mut Interp, _p: &Program, n: &Native, a: Args) -> Ret {
    let s = match it.check_num(&a, 0, n.name)? {
        Num::Int(i) => i as u64,
        Num::Flt(f) => f.to_bits(),
    };
    it.rng = s ^ 0x9E37_79B9_7F4A_7C15;
    Ok(vec![])
}

pub fn open(it: &mut Interp) {
    let m = it.new_lib("math");
    let fns: [(&'static str, NativeFnPtr); 23] = [
        ("math.floor", m_floor), ("math.ceil", m_ceil), ("math.abs", m_abs), ("math.sqrt", m_sqrt),
        ("math.sin", m_sin), ("math.cos", m_cos), ("math.tan", m_tan), ("math.asin", m_asin),
        ("math.acos", m_acos), ("math.atan", m_atan), ("math.exp", m_exp), ("math.log", m_log),
        ("math.fmod", m_fmod), ("math.modf", m_modf), ("math.tointeger", m_tointeger),
        ("math.type", m_type), ("math.max", m_max), ("math.min", m_min), ("math.ult", m_ult),
        ("math.random", m_random), ("math.randomseed", m_randomseed), ("math.floor", m_floor),
        ("math.ceil", m_ceil),
    ];
    for (name, f) in fns {
        it.register(&m, name, f);
    }
    let mut t = m.borrow_mut();
    let _ = t.set(Value::str(b"pi"), Value::Flt(std::f64::consts::PI));
    let _ = t.set(Value::str(b"huge"), Value::Flt(f64::INFINITY));
    let _ = t.set(Value::str(b"maxinteger"), Value::Int(i64::MAX));
    let _ = t.set(Value::str(b"mininteger"), Value::Int(i64::MIN));
}
