//! Standard-library functions that exist in Lua 5.3 but are not implemented here.
//! They are present (so `type(string.pack) == "function"`), and calling one ends the
//! run with `Outcome::Unsupported` instead of silently misbehaving.
use crate::ast::Program;
use crate::interp::Interp;
use crate::lib_base::*;
use crate::table::Table;
use crate::value::*;

fn stub(_it: &mut Interp, _p: &Program, n: &Native, _a: Args) -> Ret {
    unsupported(&format!("{} is not implemented", n.name))
}

const GLOBAL_STUBS: [&str; 4] = ["load", "loadstring_absent", "dofile", "loadfile"];

const LIB_STUBS: [(&str, &[&str]); 7] = [
    ("coroutine", &["coroutine.create", "coroutine.resume", "coroutine.yield", "coroutine.status",
        "coroutine.wrap", "coroutine.isyieldable", "coroutine.running"]),
    ("string", &["string.pack", "string.unpack", "string.packsize", "string.dump"]),
    ("os", &["os.execute", "os.exit", "os.getenv", "os.remove", "os.rename", "os.tmpname",
        "os.setlocale", "os.date", "os.difftime"]),
    ("io", &["io.open", "io.read", "io.lines", "io.close", "io.input", "io.output", "io.popen",
        "io.tmpfile", "io.type"]),
    ("debug", &["debug.debug", "debug.gethook", "debug.getinfo", "debug.getlocal", "debug.getmetatable",
        "debug.getregistry", "debug.getupvalue", "debug.getuservalue", "debug.sethook", "debug.setlocal",
        "debug.setmetatable", "debug.setupvalue", "debug.setuservalue", "debug.traceback",
        "debug.upvalueid", "debug.upvaluejoin"]),
    ("utf8", &["utf8.char", "utf8.codes", "utf8.codepoint", "utf8.len", "utf8.offset"]),
    ("table", &["table.move"]),
];

/// Called before the real libraries are opened; they add to the same tables.
pub fn open(it: &mut Interp) {
    let g = it.globals.clone();
    for name in GLOBAL_STUBS {
        if name.ends_with("_absent") {
            continue;
        }
        it.register(&g, name, stub);
    }
    for (lib, names) in LIB_STUBS {
        let existing = g.borrow().get_str(lib.as_bytes());
        let t = match existing {
            Value::Table(t) => t,
            _ => it.new_lib(lib),
        };
        for name in names.iter() {
            it.register(&t, name, stub);
        }
    }
    // package: only the inert data fields
    let pk = it.new_lib("package");
    let loaded = it.new_table(Table::new());
    let _ = pk.borrow_mut().set(Value::str(b"loaded"), Value::Table(loaded));
    let _ = pk.borrow_mut().set(Value::str(b"path"), Value::str(b""));
    let _ = pk.borrow_mut().set(Value::str(b"cpath"), Value::str(b""));
    let _ = pk.borrow_mut().set(Value::str(b"config"), Value::str(b"/\n;\n?\n!\n-\n"));
}
