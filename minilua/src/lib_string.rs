//! string library (lstrlib.c of Lua 5.3) except pack/unpack/dump.
use crate::ast::Program;
use crate::interp::Interp;
use crate::lib_base::*;
use crate::lpattern::*;
use crate::table::Table;
use crate::value::*;
use crate::ErrClass;
use std::cell::RefCell;
use std::rc::Rc;

fn posrelat(pos: i64, len: usize) -> i64 {
    if pos >= 0 {
        pos
    } else if (pos.unsigned_abs() as u128) > len as u128 {
        0
    } else {
        len as i64 + pos + 1
    }
}

fn s_len(it: &mut Interp, _p: &Program, n: &Native, a: Args) -> Ret {
    Ok(vec![Value::Int(it.check_str(&a, 0, n.name)?.b.len() as i64)])
}

fn s_sub(it: &mut Interp, _p: &Program, n: &Native, a: Args) -> Ret {
    let s = it.check_str(&a, 0, n.name)?;
    let l = s.b.len();
    let mut start = posrelat(it.check_int(&a, 1, n.name)?, l);
    let mut end = posrelat(it.opt_int(&a, 2, n.name, -1)?, l);
    if start < 1 {
        start = 1;
    }
    if end > l as i64 {
        end = l as i64;
    }
    if start <= end {
        Ok(vec![Value::str(&s.b[(start - 1) as usize..end as usize])])
    } else {
        Ok(vec![Value::str(b"")])
    }
}

fn s_upper(it: &mut Interp, _p: &Program, n: &Native, a: Args) -> Ret {
    Ok(vec![Value::bytes(it.check_str(&a, 0, n.name)?.b.to_ascii_uppercase())])
}

fn s_lower(it: &mut Interp, _p: &Program, n: &Native, a: Args) -> Ret {
    Ok(vec![Value::bytes(it.check_str(&a, 0, n.name)?.b.to_ascii_lowercase())])
}

fn s_reverse(it: &mut Interp, _p: &Program, n: &Native, a: Args) -> Ret {
    let mut v = it.check_str(&a, 0, n.name)?.b.to_vec();
    v.reverse();
    Ok(vec![Value::bytes(v)])
}

fn s_rep(it: &mut Interp, _p: &Program, n: &Native, a: Args) -> Ret {
    let s = it.check_str(&a, 0, n.name)?;
    let cnt = it.check_int(&a, 1, n.name)?;
    let sep = if arg(&a, 2).is_nil() { LStr::new(b"") } else { it.check_str(&a, 2, n.name)? };
    if cnt <= 0 || (s.b.is_empty() && sep.b.is_empty()) {
        return Ok(vec![Value::str(b"")]);
    }
    let total = (s.b.len() as u128 + sep.b.len() as u128) * cnt as u128;
    if total > (1u128 << 28) {
        return unsupported("string.rep result larger than 256 MiB");
    }
    let mut out = Vec::with_capacity(total as usize);
    for i in 0..cnt {
        out.extend_from_slice(&s.b);
        if i + 1 < cnt {
            out.extend_from_slice(&sep.b);
        }
    }
    Ok(vec![Value::bytes(out)])
}

fn s_byte(it: &mut Interp, _p: &Program, n: &Native, a: Args) -> Ret {
    let s = it.check_str(&a, 0, n.name)?;
    let l = s.b.len();
    let mut posi = posrelat(it.opt_int(&a, 1, n.name, 1)?, l);
    let mut pose = posrelat(it.opt_int(&a, 2, n.name, posi)?, l);
    if posi < 1 {
        posi = 1;
    }
    if pose > l as i64 {
        pose = l as i64;
    }
    if posi > pose {
        return Ok(vec![]);
    }
    if pose - posi >= 1_000_000 {
        return Err(it.lib_error(ErrClass::Other, "string slice too long"));
    }
    Ok(s.b[(posi - 1) as usize..pose as usize].iter().map(|&c| Value::Int(c as i64)).collect())
}

fn s_char(it: &mut Interp, _p: &Program, n: &Native, a: Args) -> Ret {
    let mut out = Vec::with_capacity(a.len());
    for i in 0..a.len() {
        let c = it.check_int(&a, i, n.name)?;
        if !(0..=255).contains(&c) {
            return Err(it.arg_error(i + 1, "char", "value out of range"));
        }
        out.push(c as u8);
    }
    Ok(vec![Value::bytes(out)])
}

fn s_format(it: &mut Interp, p: &Program, _n: &Native, a: Args) -> Ret {
    Ok(vec![Value::bytes(crate::strformat::format(it, p, &a)?)])
}

/// Convert a matcher error into a Lua error (or Unsupported for the backtracking guard).
fn pat_err(it: &Interp, m: &str) -> LErr {
    if m == BUDGET_ERR {
        return Box::new(LuaError::Unsupported("pattern matching needed more than 50M steps".to_string()));
    }
    it.lib_error(ErrClass::Other, m)
}

fn cap_value(ms: &MatchState, c: Cap) -> Value {
    match c {
        Cap::Str(s, e) => Value::str(&ms.src[s..e]),
        Cap::Pos(i) => Value::Int(i),
    }
}

fn push_captures(it: &Interp, ms: &MatchState, s: usize, e: usize, whole: bool, out: &mut Vec<Value>) -> LResult<()> {
    for i in 0..ms.ncaptures(whole) {
        let c = ms.get_capture(i, s, e).map_err(|m| pat_err(it, &m))?;
        out.push(cap_value(ms, c));
    }
    Ok(())
}

fn find_aux(it: &mut Interp, n: &Native, a: Args, find: bool) -> Ret {
    let s = it.check_str(&a, 0, n.name)?;
    let pat = it.check_str(&a, 1, n.name)?;
    let ls = s.b.len();
    let mut init = posrelat(it.opt_int(&a, 2, n.name, 1)?, ls);
    if init < 1 {
        init = 1;
    } else if init > ls as i64 + 1 {
        return Ok(vec![Value::Nil]);
    }
    let init = (init - 1) as usize;
    if find && (arg(&a, 3).truthy() || no_specials(&pat.b)) {
        return Ok(match find_plain(&s.b, &pat.b, init) {
            Some(i) => vec![Value::Int(i as i64 + 1), Value::Int((i + pat.b.len()) as i64)],
            None => vec![Value::Nil],
        });
    }
    let (anchor, pstart) = if pat.b.first() == Some(&b'^') { (true, 1) } else { (false, 0) };
    let mut ms = MatchState::new(&s.b, &pat.b[pstart..]);
    let mut s1 = init;
    loop {
        ms.reprep();
        let r = ms.do_match(s1, 0).map_err(|m| pat_err(it, &m))?;
        if let Some(e) = r {
            let mut out = Vec::new();
            if find {
                out.push(Value::Int(s1 as i64 + 1));
                out.push(Value::Int(e as i64));
                push_captures(it, &ms, s1, e, false, &mut out)?;
            } else {
                push_captures(it, &ms, s1, e, true, &mut out)?;
            }
            return Ok(out);
        }
        s1 += 1;
        if anchor || s1 > ls {
            return Ok(vec![Value::Nil]);
        }
    }
}

fn s_find(it: &mut Interp, _p: &Program, n: &Native, a: Args) -> Ret {
    find_aux(it, n, a, true)
}

fn s_match(it: &mut Interp, _p: &Program, n: &Native, a: Args) -> Ret {
    find_aux(it, n, a, false)
}

fn gmatch_aux(it: &mut Interp, _p: &Program, n: &Native, _a: Args) -> Ret {
    let (s, pat, mut src, last) = {
        let up = n.up.borrow();
        match (&up[0], &up[1], &up[2], &up[3]) {
            (Value::Str(s), Value::Str(p), Value::Int(i), Value::Int(l)) => (s.clone(), p.clone(), *i as usize, *l),
            _ => return unsupported("internal error: corrupt gmatch state"),
        }
    };
    let mut ms = MatchState::new(&s.b, &pat.b);
    while src <= s.b.len() {
        ms.reprep();
        let r = ms.do_match(src, 0).map_err(|m| pat_err(it, &m))?;
        if let Some(e) = r {
            if e as i64 != last {
                let mut up = n.up.borrow_mut();
                up[2] = Value::Int(e as i64);
                up[3] = Value::Int(e as i64);
                drop(up);
                let mut out = Vec::new();
                push_captures(it, &ms, src, e, true, &mut out)?;
                return Ok(out);
            }
        }
        src += 1;
    }
    Ok(vec![Value::Nil])
}

fn s_gmatch(it: &mut Interp, _p: &Program, n: &Native, a: Args) -> Ret {
    let s = it.check_str(&a, 0, n.name)?;
    let pat = it.check_str(&a, 1, n.name)?;
    let up = vec![Value::Str(s), Value::Str(pat), Value::Int(0), Value::Int(-1)];
    Ok(vec![Value::Native(Rc::new(Native { name: "gmatch_aux", f: gmatch_aux, up: RefCell::new(up) }))])
}

/// add_s: expand a replacement string.
fn add_s(it: &Interp, ms: &MatchState, out: &mut Vec<u8>, s: usize, e: usize, repl: &[u8]) -> LResult<()> {
    let mut i = 0;
    while i < repl.len() {
        if repl[i] != b'%' {
            out.push(repl[i]);
        } else {
            i += 1;
            let c = repl.get(i).copied().unwrap_or(0);
            if !c.is_ascii_digit() {
                if c != b'%' {
                    return Err(it.lib_error(ErrClass::Other, "invalid use of '%' in replacement string"));
                }
                out.push(c);
            } else if c == b'0' {
                out.extend_from_slice(&ms.src[s..e]);
            } else {
                let cap = ms.get_capture((c - b'1') as usize, s, e).map_err(|m| pat_err(it, &m))?;
                match cap_value(ms, cap) {
                    Value::Str(x) => out.extend_from_slice(&x.b),
                    v => out.extend_from_slice(&Interp::tostring_basic(&v)),
                }
            }
        }
        i += 1;
    }
    Ok(())
}

fn s_gsub(it: &mut Interp, p: &Program, n: &Native, a: Args) -> Ret {
    let s = it.check_str(&a, 0, n.name)?;
    let pat = it.check_str(&a, 1, n.name)?;
    let repl = arg(&a, 2).clone();
    let repl_str = match &repl {
        Value::Str(_) | Value::Int(_) | Value::Flt(_) => Some(it.check_str(&a, 2, n.name)?),
        Value::Table(_) | Value::Func(_) | Value::Native(_) => None,
        _ => return Err(it.arg_error(3, "gsub", "string/function/table expected")),
    };
    let max_s = if arg(&a, 3).is_nil() { i64::MAX } else { it.check_int(&a, 3, n.name)? };
    let (anchor, pstart) = if pat.b.first() == Some(&b'^') { (true, 1) } else { (false, 0) };
    let mut ms = MatchState::new(&s.b, &pat.b[pstart..]);
    let mut out = Vec::new();
    let mut src = 0usize;
    let mut last: i64 = -1;
    let mut count = 0i64;
    while count < max_s {
        ms.reprep();
        let r = ms.do_match(src, 0).map_err(|m| pat_err(it, &m))?;
        match r {
            Some(e) if e as i64 != last => {
                count += 1;
                // add_value
                if let Some(rs) = &repl_str {
                    add_s(it, &ms, &mut out, src, e, &rs.b)?;
                } else {
                    let c0 = ms.get_capture(0, src, e).map_err(|m| pat_err(it, &m))?;
                    let first = cap_value(&ms, c0);
                    let v = match &repl {
                        Value::Table(_) => it.index(p, &repl, &first)?,
                        _ => {
                            let mut args = Vec::new();
                            push_captures(it, &ms, src, e, true, &mut args)?;
                            let mut r = it.call_value(p, &repl, args)?;
                            if r.is_empty() { Value::Nil } else { r.swap_remove(0) }
                        }
                    };
                    match &v {
                        Value::Nil | Value::Bool(false) => out.extend_from_slice(&s.b[src..e]),
                        Value::Str(x) => out.extend_from_slice(&x.b),
                        Value::Int(_) | Value::Flt(_) => out.extend_from_slice(&Interp::tostring_basic(&v)),
                        _ => {
                            let msg = format!("invalid replacement value (a {})", v.type_name());
                            return Err(it.lib_error(ErrClass::Other, &msg));
                        }
                    }
                }
                src = e;
                last = e as i64;
            }
            _ => {
                if src < s.b.len() {
                    out.push(s.b[src]);
                    src += 1;
                } else {
                    break;
                }
            }
        }
        if anchor {
            break;
        }
    }
    if src < s.b.len() {
        out.extend_from_slice(&s.b[src..]);
    }
    Ok(vec![Value::bytes(out), Value::Int(count)])
}

pub fn open(it: &mut Interp) {
    let st = it.new_lib("string");
    let fns: [(&'static str, NativeFnPtr); 13] = [
        ("string.len", s_len), ("string.sub", s_sub), ("string.upper", s_upper), ("string.lower", s_lower),
        ("string.reverse", s_reverse), ("string.rep", s_rep), ("string.byte", s_byte), ("string.char", s_char),
        ("string.format", s_format), ("string.find", s_find), ("string.match", s_match),
        ("string.gmatch", s_gmatch), ("string.gsub", s_gsub),
    ];
    for (name, f) in fns {
        it.register(&st, name, f);
    }
    let mut mt = Table::new();
    let _ = mt.set(Value::str(b"__index"), Value::Table(st));
    let mt = it.new_table(mt);
    it.string_meta = Some(mt);
}
