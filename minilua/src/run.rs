//! `run` / `run_source`: execute a chunk on a dedicated big-stack thread.
use crate::ast::Program;
use crate::interp::{Interp, Mm};
use crate::value::*;
use crate::{Chunk, ErrClass, LoadError, Outcome, RunOptions, RunResult};
use std::sync::Arc;

/// Native stack needed per nested Lua call in the worst realistic case (bytes).
const STACK_PER_CALL: usize = 64 * 1024;
const MIN_STACK: usize = 256 << 20;
const MAX_STACK: usize = 16 << 30;

fn error_message(it: &mut Interp, p: &Program, v: &Value) -> String {
    match v {
        Value::Str(s) => s.to_str_lossy(),
        Value::Int(_) | Value::Flt(_) => String::from_utf8_lossy(&Interp::tostring_basic(v)).into_owned(),
        _ => {
            if !it.metamethod(v, Mm::ToString).is_nil() {
                it.steps = 0;
                it.max_steps = it.max_steps.max(1_000_000);
                if let Ok(Value::Str(s)) = it.tostring(p, v) {
                    return s.to_str_lossy();
                }
            }
            format!("(error object is a {} value)", v.type_name())
        }
    }
}

fn run_inner(prog: &Program, opts: &RunOptions) -> RunResult {
    let mut it = Interp::new(prog, opts);
    let r = it.run_main(prog);
    let steps = it.steps;
    let outcome = match r {
        Ok(()) => Outcome::Done,
        Err(e) => match *e {
            LuaError::StepLimit => Outcome::StepLimit,
            LuaError::Unsupported(s) => Outcome::Unsupported(s),
            LuaError::Error { value, class, line } => {
                let message = error_message(&mut it, prog, &value);
                Outcome::Error { class, message, line }
            }
        },
    };
    let output = String::from_utf8_lossy(&it.output).into_owned();
    let requires = std::mem::take(&mut it.requires);
    let events = std::mem::take(&mut it.events);
    it.teardown();
    RunResult { outcome, output, requires, events, steps }
}

fn failed(msg: String) -> RunResult {
    RunResult { outcome: Outcome::Unsupported(msg), output: String::new(), requires: Vec::new(), events: Vec::new(), steps: 0 }
}

/// Run a loaded chunk. Never panics; internal failures are reported as `Outcome::Unsupported`.
pub fn run(chunk: &Chunk, opts: &RunOptions) -> RunResult {
    let prog: Arc<Program> = chunk.prog.clone();
    let o = opts.clone();
    let stack = opts.max_call_depth.saturating_mul(STACK_PER_CALL).clamp(MIN_STACK, MAX_STACK);
    let handle = std::thread::Builder::new().name("minilua".into()).stack_size(stack).spawn(move || {
        let r = std::panic::catch_unwind(std::panic::AssertUnwindSafe(|| run_inner(&prog, &o)));
        match r {
            Ok(res) => res,
            Err(e) => {
                let what = if let Some(s) = e.downcast_ref::<&str>() {
                    s.to_string()
                } else if let Some(s) = e.downcast_ref::<String>() {
                    s.clone()
                } else {
                    "unknown panic".to_string()
                };
                failed(format!("internal error (panic): {}", what))
            }
        }
    });
    match handle {
        Ok(h) => match h.join() {
            Ok(r) => r,
            Err(_) => failed("internal error: interpreter thread died".to_string()),
        },
        Err(e) => failed(format!("internal error: cannot spawn interpreter thread: {}", e)),
    }
}

pub fn run_source(src: &str, opts: &RunOptions) -> Result<RunResult, LoadError> {
    let chunk = crate::load(src)?;
    Ok(run(&chunk, opts))
}

#[allow(dead_code)]
fn _assert_send_sync() {
    fn is_send_sync<T: Send + Sync>() {}
    is_send_sync::<Chunk>();
    is_send_sync::<RunResult>();
    let _ = ErrClass::Other;
}
