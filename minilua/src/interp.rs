//! Interpreter state, frames and the calling convention.
use crate::ast::*;
use crate::table::Table;
use crate::value::*;
use crate::{ErrClass, Event};
use std::cell::RefCell;
use std::rc::{Rc, Weak};

/// A frame slot: a plain value, or a shared cell once some closure captured it.
pub enum Slot {
    Val(Value),
    Cell(CellRef),
}

pub struct Frame {
    pub base: usize,
    pub closure: Rc<Closure>,
    pub varargs: Vec<Value>,
    pub act: u64,
}

pub enum Flow {
    Normal,
    Break,
    Goto(u32),
    Return(Vec<Value>),
    TailCall(Value, Vec<Value>),
}

/// Metamethod names, interned once per run.
#[derive(Clone, Copy, PartialEq, Eq, Debug)]
#[repr(usize)]
pub enum Mm {
    Index, NewIndex, Call, Add, Sub, Mul, Div, Mod, Pow, Unm, IDiv, BAnd, BOr, BXor, Shl, Shr, BNot,
    Concat, Len, Eq, Lt, Le, ToString, Pairs, Metatable, Name,
}

pub const MM_NAMES: [&str; 26] = [
    "__index", "__newindex", "__call", "__add", "__sub", "__mul", "__div", "__mod", "__pow", "__unm",
    "__idiv", "__band", "__bor", "__bxor", "__shl", "__shr", "__bnot", "__concat", "__len", "__eq",
    "__lt", "__le", "__tostring", "__pairs", "__metatable", "__name",
];

pub struct Interp {
    pub stack: Vec<Slot>,
    pub globals: TableRef,
    pub kstr: Vec<Value>,
    pub mm: Vec<Value>,
    pub string_meta: Option<TableRef>,
    pub steps: u64,
    pub max_steps: u64,
    pub depth: usize,
    pub max_depth: usize,
    /// line of the Lua code currently executing (call sites set it before calling)
    pub cur_line: u32,
    /// call-site line of every active Lua function (for `error` level 2)
    pub call_lines: Vec<u32>,
    /// true while a native function was invoked by another native (pcall(error, ...))
    pub from_native: bool,
    /// > 0 while the innermost running function is a native one (like `!isLua(ci)`)
    pub native_level: u32,
    pub output: Vec<u8>,
    pub capture: bool,
    pub requires: Vec<String>,
    pub events: Vec<Event>,
    pub record: bool,
    pub next_act: u64,
    pub cur_act: u64,
    pub rng: u64,
    pub start: std::time::Instant,
    /// natives that must stay reachable even if the globals are overwritten
    pub registry: Vec<(&'static str, Value)>,
    /// set while the generic `for` calls its iterator (affects argument error names)
    pub for_iter: bool,
    tables: Vec<Weak<RefCell<Table>>>,
    closures: Vec<Weak<Closure>>,
    sweep_tables_at: usize,
    sweep_closures_at: usize,
}

impl Interp {
    pub fn new(p: &Program, opts: &crate::RunOptions) -> Interp {
        let globals = Rc::new(RefCell::new(Table::new()));
        let mut it = Interp {
            stack: Vec::with_capacity(1024),
            globals,
            kstr: p.consts.iter().map(|c| Value::str(c)).collect(),
            mm: MM_NAMES.iter().map(|n| Value::str(n.as_bytes())).collect(),
            string_meta: None,
            steps: 0,
            max_steps: opts.max_steps,
            depth: 0,
            max_depth: opts.max_call_depth,
            cur_line: 0,
            call_lines: Vec::new(),
            from_native: false,
            native_level: 0,
            output: Vec::new(),
            capture: opts.capture_output,
            requires: Vec::new(),
            events: Vec::new(),
            record: opts.record_events,
            next_act: 1,
            cur_act: 0,
            rng: opts.seed ^ 0x9E37_79B9_7F4A_7C15,
            start: std::time::Instant::now(),
            registry: Vec::new(),
            for_iter: false,
            tables: Vec::new(),
            closures: Vec::new(),
            sweep_tables_at: 4096,
            sweep_closures_at: 4096,
        };
        let g = it.globals.clone();
        it.tables.push(Rc::downgrade(&g));
        crate::lib_base::open(&mut it);
        it
    }

    // ---- allocation registry (to break Rc cycles when the run ends) -------
    pub fn new_table(&mut self, t: Table) -> TableRef {
        let r = Rc::new(RefCell::new(t));
        if self.tables.len() >= self.sweep_tables_at {
            self.tables.retain(|w| w.strong_count() > 0);
            self.sweep_tables_at = (self.tables.len() * 2).max(4096);
        }
        self.tables.push(Rc::downgrade(&r));
        r
    }

    pub fn new_closure(&mut self, c: Closure) -> Rc<Closure> {
        let r = Rc::new(c);
        if self.closures.len() >= self.sweep_closures_at {
            self.closures.retain(|w| w.strong_count() > 0);
            self.sweep_closures_at = (self.closures.len() * 2).max(4096);
        }
        self.closures.push(Rc::downgrade(&r));
        r
    }

    /// Break all reference cycles so that everything allocated by the run is freed.
    pub fn teardown(&mut self) {
        self.stack.clear();
        for w in std::mem::take(&mut self.closures) {
            if let Some(c) = w.upgrade() {
                for u in c.upvals.iter() {
                    if let Ok(mut b) = u.try_borrow_mut() {
                        *b = Value::Nil;
                    }
                }
            }
        }
        for w in std::mem::take(&mut self.tables) {
            if let Some(t) = w.upgrade() {
                if let Ok(mut b) = t.try_borrow_mut() {
                    b.clear_all();
                }
            }
        }
        self.string_meta = None;
        self.registry.clear();
    }

    pub fn register(&mut self, tbl: &TableRef, name: &'static str, f: NativeFnPtr) {
        let n = Value::Native(Rc::new(Native { name, f, up: RefCell::new(Vec::new()) }));
        let short = name.rsplit('.').next().unwrap_or(name);
        let _ = tbl.borrow_mut().set(Value::str(short.as_bytes()), n);
    }

    // ---- errors ------------------------------------------------------------
    /// A VM-generated error: message gets the `input:LINE:` prefix.
    pub fn rt_error(&self, class: ErrClass, line: u32, msg: &str) -> LErr {
        // luaG_runerror only adds position information when the running function is a Lua function
        let full = if self.native_level > 0 { msg.to_string() } else { format!("input:{}: {}", line, msg) };
        Box::new(LuaError::Error { value: Value::string(full), class, line })
    }

    /// Error raised by a native function on behalf of its Lua caller
    /// (luaL_error: position of the calling Lua code is prepended).
    pub fn lib_error(&self, class: ErrClass, msg: &str) -> LErr {
        let full = if self.from_native { msg.to_string() } else { format!("input:{}: {}", self.cur_line, msg) };
        Box::new(LuaError::Error { value: Value::string(full), class, line: self.cur_line })
    }

    pub fn registry_native(&self, name: &str) -> Value {
        self.registry.iter().find(|(n, _)| *n == name).map(|(_, v)| v.clone()).unwrap_or(Value::Nil)
    }

    pub fn arg_error(&self, n: usize, fname: &str, msg: &str) -> LErr {
        let fname = if self.for_iter { "for iterator" } else { fname };
        self.lib_error(ErrClass::Other, &format!("bad argument #{} to '{}' ({})", n, fname, msg))
    }

    #[inline]
    pub fn step(&mut self) -> LResult<()> {
        self.steps += 1;
        if self.steps > self.max_steps {
            return Err(Box::new(LuaError::StepLimit));
        }
        Ok(())
    }

    // ---- metatables --------------------------------------------------------
    pub fn metatable_of(&self, v: &Value) -> Option<TableRef> {
        match v {
            Value::Table(t) => t.borrow().meta.clone(),
            Value::Str(_) => self.string_meta.clone(),
            _ => None,
        }
    }

    #[inline]
    pub fn metamethod(&self, v: &Value, m: Mm) -> Value {
        match v {
            Value::Table(t) => match &t.borrow().meta {
                Some(mt) => mt.borrow().get(&self.mm[m as usize]),
                None => Value::Nil,
            },
            Value::Str(_) => match &self.string_meta {
                Some(mt) => mt.borrow().get(&self.mm[m as usize]),
                None => Value::Nil,
            },
            _ => Value::Nil,
        }
    }

    // ---- calls -------------------------------------------------------------
    /// Call any value from native code (no variable info in error messages).
    pub fn call_value(&mut self, p: &Program, f: &Value, mut args: Vec<Value>) -> LResult<Vec<Value>> {
        match f {
            Value::Func(c) => self.call_lua(p, c.clone(), args),
            Value::Native(n) => {
                let saved = self.from_native;
                self.from_native = true;
                let r = self.call_native(p, n, args);
                self.from_native = saved;
                r
            }
            _ => {
                let h = self.metamethod(f, Mm::Call);
                if h.is_nil() {
                    let msg = format!("attempt to call a {} value", f.type_name());
                    return Err(self.rt_error(ErrClass::Call, self.cur_line, &msg));
                }
                args.insert(0, f.clone());
                self.call_value(p, &h, args)
            }
        }
    }

    pub fn call_native(&mut self, p: &Program, n: &Rc<Native>, args: Vec<Value>) -> LResult<Vec<Value>> {
        if self.depth >= self.max_depth {
            return Err(self.rt_error(ErrClass::StackOverflow, self.cur_line, "stack overflow"));
        }
        self.depth += 1;
        self.native_level += 1;
        let r = (n.f)(self, p, n, args);
        self.native_level -= 1;
        self.depth -= 1;
        r
    }

    pub fn call_lua(&mut self, p: &Program, mut clo: Rc<Closure>, mut args: Vec<Value>) -> LResult<Vec<Value>> {
        if self.depth >= self.max_depth {
            return Err(self.rt_error(ErrClass::StackOverflow, self.cur_line, "stack overflow"));
        }
        self.depth += 1;
        let parent_act = self.cur_act;
        let saved_native = self.from_native;
        let saved_level = self.native_level;
        self.from_native = false;
        self.native_level = 0;
        self.call_lines.push(self.cur_line);
        let result = loop {
            if let Err(e) = self.step() {
                break Err(e);
            }
            let proto = &p.protos[clo.proto as usize];
            let np = proto.nparams as usize;
            let varargs = if proto.is_vararg && args.len() > np { args.split_off(np) } else { Vec::new() };
            args.truncate(np);
            let base = self.stack.len();
            let nslots = (proto.nslots as usize).max(np);
            for a in args.drain(..) {
                self.stack.push(Slot::Val(a));
            }
            while self.stack.len() < base + nslots {
                self.stack.push(Slot::Val(Value::Nil));
            }
            let act = self.next_act;
            self.next_act += 1;
            self.cur_act = act;
            if self.record {
                self.events.push(Event::Enter { act, parent_act, func_line: proto.line });
            }
            let fr = Frame { base, closure: clo.clone(), varargs, act };
            let r = self.exec_block(p, &fr, &proto.body);
            self.stack.truncate(base);
            if self.record {
                self.events.push(Event::Exit { act });
            }
            match r {
                Ok(Flow::Normal) => break Ok(Vec::new()),
                Ok(Flow::Return(v)) => break Ok(v),
                Ok(Flow::TailCall(f, a)) => match f {
                    Value::Func(c) => {
                        clo = c;
                        args = a;
                    }
                    other => {
                        self.cur_act = parent_act;
                        break self.call_value(p, &other, a);
                    }
                },
                Ok(Flow::Break) | Ok(Flow::Goto(_)) => {
                    break unsupported("internal error: unresolved jump escaped a function body")
                }
                Err(e) => break Err(e),
            }
        };
        self.call_lines.pop();
        self.from_native = saved_native;
        self.native_level = saved_level;
        self.cur_act = parent_act;
        self.depth -= 1;
        result
    }

    /// Run the main chunk.
    pub fn run_main(&mut self, p: &Program) -> LResult<()> {
        let proto = &p.protos[p.main as usize];
        let env: CellRef = Rc::new(RefCell::new(Value::Table(self.globals.clone())));
        let clo = self.new_closure(Closure { proto: p.main, upvals: vec![env].into_boxed_slice() });
        let base = self.stack.len();
        for _ in 0..proto.nslots {
            self.stack.push(Slot::Val(Value::Nil));
        }
        let fr = Frame { base, closure: clo, varargs: Vec::new(), act: 0 };
        self.depth += 1;
        let r = self.exec_block(p, &fr, &proto.body);
        self.depth -= 1;
        self.stack.truncate(base);
        match r {
            Ok(Flow::TailCall(f, a)) => self.call_value(p, &f, a).map(|_| ()),
            Ok(_) => Ok(()),
            Err(e) => Err(e),
        }
    }
}
