//! Lua table: array part (keys 1..n) + insertion-ordered hash part.
//!
//! Invariants:
//!  * integer keys in `1..=arr.len()` live in `arr` (possibly as nil holes);
//!  * the hash part never holds a non-nil value for key `arr.len() + 1`
//!    (such a key is appended to `arr`, followed by migration of successors);
//!  * keys whose value was set to nil stay in the hash part as dead entries
//!    until the next insertion-triggered compaction, so `next` keeps working
//!    when fields are cleared during a traversal.
use crate::numfmt::float_to_int;
use crate::value::{TableRef, Value};
use std::collections::HashMap;
use std::hash::{BuildHasherDefault, Hash, Hasher};
use std::rc::Rc;

#[derive(Default)]
pub struct FxHasher(u64);

impl Hasher for FxHasher {
    fn finish(&self) -> u64 {
        self.0
    }
    fn write(&mut self, bytes: &[u8]) {
        for &b in bytes {
            self.write_u64(b as u64);
        }
    }
    fn write_u64(&mut self, x: u64) {
        self.0 = (self.0.rotate_left(5) ^ x).wrapping_mul(0x517c_c1b7_2722_0a95);
    }
    fn write_u32(&mut self, x: u32) {
        self.write_u64(x as u64)
    }
    fn write_usize(&mut self, x: usize) {
        self.write_u64(x as u64)
    }
}

#[repr(transparent)]
struct Key(Value);

impl Key {
    fn from_ref(v: &Value) -> &Key {
        // SAFETY: Key is repr(transparent) over Value.
        unsafe { &*(v as *const Value as *const Key) }
    }
}

impl PartialEq for Key {
    fn eq(&self, o: &Key) -> bool {
        self.0.raw_eq(&o.0)
    }
}
impl Eq for Key {}

impl Hash for Key {
    fn hash<H: Hasher>(&self, h: &mut H) {
        match &self.0 {
            Value::Nil => h.write_u64(0),
            Value::Bool(b) => h.write_u64(1 + *b as u64),
            Value::Int(i) => h.write_u64(*i as u64),
            Value::Flt(f) => h.write_u64(f.to_bits() ^ 0x5555),
            Value::Str(s) => h.write_u64(s.hash() as u64 | 0x1_0000_0000),
            Value::Table(t) => h.write_u64(Rc::as_ptr(t) as *const u8 as usize as u64),
            Value::Func(f) => h.write_u64(Rc::as_ptr(f) as *const u8 as usize as u64),
            Value::Native(f) => h.write_u64(Rc::as_ptr(f) as *const u8 as usize as u64),
        }
    }
}

pub enum KeyError {
    Nil,
    NaN,
}

#[derive(Default)]
pub struct Table {
    pub arr: Vec<Value>,
    map: HashMap<Key, u32, BuildHasherDefault<FxHasher>>,
    /// (key, value); key == Nil marks a tombstone (entry migrated to `arr`)
    entries: Vec<(Value, Value)>,
    /// number of entries that are tombstones or have a nil value
    dead: usize,
    pub meta: Option<TableRef>,
}

#[inline]
fn norm(k: &Value) -> Option<i64> {
    match k {
        Value::Int(i) => Some(*i),
        Value::Flt(f) => float_to_int(*f),
        _ => None,
    }
}

impl Table {
    pub fn new() -> Table {
        Table::default()
    }

    pub fn with_capacity(narr: usize) -> Table {
        Table { arr: Vec::with_capacity(narr), ..Table::default() }
    }

    #[inline]
    pub fn get_int(&self, i: i64) -> Value {
        let idx = (i as u64).wrapping_sub(1);
        if idx < self.arr.len() as u64 {
            return self.arr[idx as usize].clone();
        }
        if self.map.is_empty() {
            return Value::Nil;
        }
        self.get_hash(&Value::Int(i))
    }

    fn get_hash(&self, k: &Value) -> Value {
        match self.map.get(Key::from_ref(k)) {
            Some(&idx) => self.entries[idx as usize].1.clone(),
            None => Value::Nil,
        }
    }

    pub fn get(&self, k: &Value) -> Value {
        match k {
            Value::Int(i) => self.get_int(*i),
            Value::Nil => Value::Nil,
            Value::Flt(f) => match float_to_int(*f) {
                Some(i) => self.get_int(i),
                None if f.is_nan() => Value::Nil,
                None => self.get_hash(k),
            },
            _ => {
                if self.map.is_empty() { Value::Nil } else { self.get_hash(k) }
            }
        }
    }

    pub fn get_str(&self, s: &[u8]) -> Value {
        self.get(&Value::str(s))
    }

    pub fn set(&mut self, k: Value, v: Value) -> Result<(), KeyError> {
        if let Some(i) = norm(&k) {
            self.set_int(i, v);
            return Ok(());
        }
        match &k {
            Value::Nil => return Err(KeyError::Nil),
            Value::Flt(f) if f.is_nan() => return Err(KeyError::NaN),
            _ => {}
        }
        self.set_hash(k, v);
        Ok(())
    }

    pub fn set_int(&mut self, i: i64, v: Value) {
        let idx = (i as u64).wrapping_sub(1);
        let n = self.arr.len() as u64;
        if idx < n {
            self.arr[idx as usize] = v;
        } else if idx == n {
            if v.is_nil() {
                return;
            }
            self.arr.push(v);
            self.migrate();
        } else {
            self.set_hash(Value::Int(i), v);
        }
    }

    /// Store the i-th positional item of a table constructor (nil items keep their array slot).
    pub fn set_positional(&mut self, i: i64, v: Value) {
        let idx = (i as u64).wrapping_sub(1);
        let n = self.arr.len() as u64;
        if idx < n {
            self.arr[idx as usize] = v;
        } else if idx == n {
            self.arr.push(v);
        } else {
            self.set_int(i, v);
        }
    }

    pub fn finish_constructor(&mut self) {
        self.migrate();
    }

    /// Move successors of the array part out of the hash part.
    fn migrate(&mut self) {
        while !self.map.is_empty() {
            let next = Value::Int(self.arr.len() as i64 + 1);
            let idx = match self.map.get(Key::from_ref(&next)) {
                Some(&idx) => idx as usize,
                None => break,
            };
            if self.entries[idx].1.is_nil() {
                break;
            }
            let v = std::mem::take(&mut self.entries[idx].1);
            self.map.remove(Key::from_ref(&next));
            self.entries[idx].0 = Value::Nil;
            self.dead += 1;
            self.arr.push(v);
        }
    }

    fn set_hash(&mut self, k: Value, v: Value) {
        if let Some(&idx) = self.map.get(Key::from_ref(&k)) {
            let slot = &mut self.entries[idx as usize].1;
            match (slot.is_nil(), v.is_nil()) {
                (false, true) => self.dead += 1,
                (true, false) => self.dead -= 1,
                _ => {}
            }
            *slot = v;
            return;
        }
        if v.is_nil() {
            return;
        }
        if self.entries.len() >= 8 && self.dead * 2 > self.entries.len() {
            self.compact();
        }
        let idx = self.entries.len() as u32;
        self.entries.push((k.clone(), v));
        self.map.insert(Key(k), idx);
    }

    fn compact(&mut self) {
        let old = std::mem::take(&mut self.entries);
        self.map.clear();
        for (k, v) in old {
            if !k.is_nil() && !v.is_nil() {
                let idx = self.entries.len() as u32;
                self.entries.push((k.clone(), v));
                self.map.insert(Key(k), idx);
            }
        }
        self.dead = 0;
    }

    /// A border of the table (exact length for sequences).
    pub fn len(&self) -> i64 {
        let n = self.arr.len();
        if n == 0 || !self.arr[n - 1].is_nil() {
            return n as i64;
        }
        // binary search for a border inside the array part (luaH_getn)
        let (mut i, mut j) = (0usize, n);
        while j - i > 1 {
            let m = (i + j) / 2;
            if self.arr[m - 1].is_nil() { j = m } else { i = m }
        }
        i as i64
    }

    /// `next`: Err(()) when the key is not present in the table.
    pub fn next(&self, k: &Value) -> Result<Option<(Value, Value)>, ()> {
        let mut ai = 0usize;
        let mut ei = 0usize;
        match k {
            Value::Nil => {}
            _ => {
                let mut found = false;
                if let Some(i) = norm(k) {
                    let idx = (i as u64).wrapping_sub(1);
                    if idx < self.arr.len() as u64 {
                        ai = idx as usize + 1;
                        found = true;
                    }
                }
                if !found {
                    let nk = match norm(k) {
                        Some(i) => Value::Int(i),
                        None => k.clone(),
                    };
                    match self.map.get(Key::from_ref(&nk)) {
                        Some(&idx) => {
                            ai = self.arr.len();
                            ei = idx as usize + 1;
                        }
                        None => return Err(()),
                    }
                }
            }
        }
        while ai < self.arr.len() {
            if !self.arr[ai].is_nil() {
                return Ok(Some((Value::Int(ai as i64 + 1), self.arr[ai].clone())));
            }
            ai += 1;
        }
        while ei < self.entries.len() {
            let (k, v) = &self.entries[ei];
            if !k.is_nil() && !v.is_nil() {
                return Ok(Some((k.clone(), v.clone())));
            }
            ei += 1;
        }
        Ok(None)
    }

    /// Drop all contents (used to break reference cycles at the end of a run).
    pub fn clear_all(&mut self) {
        self.arr = Vec::new();
        self.map = HashMap::default();
        self.entries = Vec::new();
        self.dead = 0;
        self.meta = None;
    }
}
