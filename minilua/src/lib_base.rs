//! Base library and library registration.
use crate::arith::*;
use crate::ast::Program;
use crate::interp::*;
use crate::numfmt::Num;
use crate::table::Table;
use crate::value::*;
use crate::ErrClass;
use std::rc::Rc;

pub type Args = Vec<Value>;
pub type Ret = LResult<Vec<Value>>;

struct SyncNil(Value);
// SAFETY: the wrapped value is always `Value::Nil`, which holds no `Rc`.
unsafe impl Sync for SyncNil {}
static NIL: SyncNil = SyncNil(Value::Nil);

#[inline]
pub fn arg(a: &Args, i: usize) -> &Value {
    a.get(i).unwrap_or(&NIL.0)
}

pub fn got(a: &Args, i: usize) -> &'static str {
    if i < a.len() { a[i].type_name() } else { "no value" }
}

impl Interp {
    fn fname<'a>(&self, name: &'a str) -> &'a str {
        name.rsplit('.').next().unwrap_or(name)
    }

    pub fn type_arg_error(&self, a: &Args, i: usize, fname: &str, expected: &str) -> LErr {
        self.arg_error(i + 1, self.fname(fname), &format!("{} expected, got {}", expected, got(a, i)))
    }

    pub fn check_table(&self, a: &Args, i: usize, fname: &str) -> LResult<TableRef> {
        match arg(a, i) {
            Value::Table(t) => Ok(t.clone()),
            _ => Err(self.type_arg_error(a, i, fname, "table")),
        }
    }

    pub fn check_int(&self, a: &Args, i: usize, fname: &str) -> LResult<i64> {
        let v = arg(a, i);
        match to_integer(v) {
            Some(n) => Ok(n),
            None => {
                if to_num(v).is_some() {
                    Err(self.arg_error(i + 1, self.fname(fname), "number has no integer representation"))
                } else {
                    Err(self.type_arg_error(a, i, fname, "number"))
                }
            }
        }
    }

    pub fn opt_int(&self, a: &Args, i: usize, fname: &str, def: i64) -> LResult<i64> {
        if arg(a, i).is_nil() { Ok(def) } else { self.check_int(a, i, fname) }
    }

    pub fn check_num(&self, a: &Args, i: usize, fname: &str) -> LResult<Num> {
        to_num(arg(a, i)).ok_or_else(|| self.type_arg_error(a, i, fname, "number"))
    }

    pub fn check_float(&self, a: &Args, i: usize, fname: &str) -> LResult<f64> {
        to_float(arg(a, i)).ok_or_else(|| self.type_arg_error(a, i, fname, "number"))
    }

    /// luaL_checklstring: strings and numbers are accepted.
    pub fn check_str(&self, a: &Args, i: usize, fname: &str) -> LResult<Rc<LStr>> {
        match arg(a, i) {
            Value::Str(s) => Ok(s.clone()),
            v @ (Value::Int(_) | Value::Flt(_)) => Ok(LStr::from_vec(num_to_bytes(v).unwrap_or_default())),
            _ => Err(self.type_arg_error(a, i, fname, "string")),
        }
    }

    pub fn check_any(&self, a: &Args, i: usize, fname: &str) -> LResult<()> {
        if i < a.len() { Ok(()) } else { Err(self.arg_error(i + 1, self.fname(fname), "value expected")) }
    }

    pub fn write_out(&mut self, b: &[u8]) {
        if self.capture {
            self.output.extend_from_slice(b);
        } else {
            use std::io::Write;
            let _ = std::io::stdout().write_all(b);
        }
    }

    /// Get or create the global library table `name`.
    pub fn new_lib(&mut self, name: &str) -> TableRef {
        if let Value::Table(t) = self.globals.borrow().get_str(name.as_bytes()) {
            return t;
        }
        let t = self.new_table(Table::new());
        let g = self.globals.clone();
        let _ = g.borrow_mut().set(Value::str(name.as_bytes()), Value::Table(t.clone()));
        t
    }
}

fn b_print(it: &mut Interp, p: &Program, _n: &Native, a: Args) -> Ret {
    let mut line = Vec::new();
    for (i, v) in a.iter().enumerate() {
        if i > 0 {
            line.push(b'\t');
        }
        match it.tostring(p, v)? {
            Value::Str(s) => line.extend_from_slice(&s.b),
            _ => {}
        }
    }
    line.push(b'\n');
    it.write_out(&line);
    Ok(vec![])
}

fn b_type(it: &mut Interp, _p: &Program, n: &Native, a: Args) -> Ret {
    it.check_any(&a, 0, n.name)?;
    Ok(vec![Value::str(a[0].type_name().as_bytes())])
}

fn b_tostring(it: &mut Interp, p: &Program, n: &Native, a: Args) -> Ret {
    it.check_any(&a, 0, n.name)?;
    Ok(vec![it.tostring(p, &a[0])?])
}

fn b_tonumber(it: &mut Interp, _p: &Program, n: &Native, a: Args) -> Ret {
    if arg(&a, 1).is_nil() {
        it.check_any(&a, 0, n.name)?;
        return Ok(vec![match &a[0] {
            Value::Int(_) | Value::Flt(_) => a[0].clone(),
            Value::Str(s) => match crate::numfmt::str2number(&s.b) {
                Some(Num::Int(i)) => Value::Int(i),
                Some(Num::Flt(f)) => Value::Flt(f),
                None => Value::Nil,
            },
            _ => Value::Nil,
        }]);
    }
    let base = it.check_int(&a, 1, n.name)?;
    let s = match arg(&a, 0) {
        Value::Str(s) => s.clone(),
        _ => return Err(it.type_arg_error(&a, 0, n.name, "string")),
    };
    if !(2..=36).contains(&base) {
        return Err(it.arg_error(2, "tonumber", "base out of range"));
    }
    let txt: Vec<u8> = s.b.iter().copied().collect();
    let t = String::from_utf8_lossy(&txt);
    let t = t.trim_matches(|c: char| c == ' ' || ('\t'..='\r').contains(&c));
    let (neg, digits) = match t.strip_prefix('-') {
        Some(r) => (true, r),
        None => (false, t),
    };
    if digits.is_empty() {
        return Ok(vec![Value::Nil]);
    }
    let mut acc: i64 = 0;
    for c in digits.chars() {
        match c.to_digit(36) {
            Some(d) if (d as i64) < base => acc = acc.wrapping_mul(base).wrapping_add(d as i64),
            _ => return Ok(vec![Value::Nil]),
        }
    }
    Ok(vec![Value::Int(if neg { acc.wrapping_neg() } else { acc })])
}

fn b_assert(it: &mut Interp, _p: &Program, n: &Native, mut a: Args) -> Ret {
    if arg(&a, 0).truthy() {
        return Ok(a);
    }
    it.check_any(&a, 0, n.name)?;
    if a.len() < 2 {
        return Err(it.lib_error(ErrClass::Assert, "assertion failed!"));
    }
    let msg = a.swap_remove(1);
    Err(Box::new(LuaError::Error { value: msg, class: ErrClass::Assert, line: it.cur_line }))
}

fn b_error(it: &mut Interp, _p: &Program, n: &Native, a: Args) -> Ret {
    let level = it.opt_int(&a, 1, n.name, 1)?;
    let v = arg(&a, 0).clone();
    let line = if level >= 2 && !it.from_native {
        let idx = it.call_lines.len() as i64 - (level - 1);
        if idx >= 0 { it.call_lines.get(idx as usize).copied().unwrap_or(0) } else { 0 }
    } else {
        it.cur_line
    };
    let value = match &v {
        Value::Str(s) if level > 0 && !it.from_native && line > 0 => {
            let mut m = format!("input:{}: ", line).into_bytes();
            m.extend_from_slice(&s.b);
            Value::bytes(m)
        }
        _ => v,
    };
    Err(Box::new(LuaError::Error { value, class: ErrClass::ErrorCall, line }))
}

fn b_pcall(it: &mut Interp, p: &Program, n: &Native, mut a: Args) -> Ret {
    it.check_any(&a, 0, n.name)?;
    let f = a.remove(0);
    match it.call_value(p, &f, a) {
        Ok(mut r) => {
            r.insert(0, Value::Bool(true));
            Ok(r)
        }
        Err(e) => match *e {
            LuaError::Error { value, .. } => Ok(vec![Value::Bool(false), value]),
            other => Err(Box::new(other)),
        },
    }
}

fn b_xpcall(it: &mut Interp, p: &Program, n: &Native, mut a: Args) -> Ret {
    if a.len() < 2 {
        return Err(it.type_arg_error(&a, 1, n.name, "function"));
    }
    let f = a.remove(0);
    let h = a.remove(0);
    match it.call_value(p, &f, a) {
        Ok(mut r) => {
            r.insert(0, Value::Bool(true));
            Ok(r)
        }
        Err(e) => match *e {
            LuaError::Error { value, .. } => {
                let mut r = it.call_value(p, &h, vec![value])?;
                r.insert(0, Value::Bool(false));
                Ok(r)
            }
            other => Err(Box::new(other)),
        },
    }
}

fn b_select(it: &mut Interp, _p: &Program, n: &Native, mut a: Args) -> Ret {
    if let Value::Str(s) = arg(&a, 0) {
        if &*s.b == b"#" {
            return Ok(vec![Value::Int(a.len() as i64 - 1)]);
        }
    }
    let i = it.check_int(&a, 0, n.name)?;
    let top = a.len() as i64 - 1;
    let i = if i < 0 { top + i + 1 } else { i };
    if i < 1 {
        return Err(it.arg_error(1, "select", "index out of range"));
    }
    if i > top {
        return Ok(vec![]);
    }
    Ok(a.split_off(i as usize))
}

fn b_rawget(it: &mut Interp, _p: &Program, n: &Native, a: Args) -> Ret {
    let t = it.check_table(&a, 0, n.name)?;
    it.check_any(&a, 1, n.name)?;
    let v = t.borrow().get(&a[1]);
    Ok(vec![v])
}

fn b_rawset(it: &mut Interp, _p: &Program, n: &Native, a: Args) -> Ret {
    let t = it.check_table(&a, 0, n.name)?;
    it.check_any(&a, 2, n.name)?;
    let line = it.cur_line;
    t.borrow_mut().set(a[1].clone(), a[2].clone()).map_err(|e| it.key_error(e, line))?;
    Ok(vec![a[0].clone()])
}

fn b_rawequal(it: &mut Interp, _p: &Program, n: &Native, a: Args) -> Ret {
    it.check_any(&a, 1, n.name)?;
    Ok(vec![Value::Bool(a[0].raw_eq(&a[1]))])
}

fn b_rawlen(it: &mut Interp, _p: &Program, _n: &Native, a: Args) -> Ret {
    match arg(&a, 0) {
        Value::Table(t) => Ok(vec![Value::Int(t.borrow().len())]),
        Value::Str(s) => Ok(vec![Value::Int(s.b.len() as i64)]),
        _ => Err(it.arg_error(1, "rawlen", "table or string expected")),
    }
}

fn b_setmetatable(it: &mut Interp, _p: &Program, n: &Native, a: Args) -> Ret {
    let t = it.check_table(&a, 0, n.name)?;
    let mt = match arg(&a, 1) {
        Value::Nil if a.len() >= 2 => None,
        Value::Table(m) => Some(m.clone()),
        _ => return Err(it.arg_error(2, "setmetatable", "nil or table expected")),
    };
    if !it.metamethod(&a[0], Mm::Metatable).is_nil() {
        return Err(it.lib_error(ErrClass::Other, "cannot change a protected metatable"));
    }
    t.borrow_mut().meta = mt;
    Ok(vec![a[0].clone()])
}

fn b_getmetatable(it: &mut Interp, _p: &Program, n: &Native, a: Args) -> Ret {
    it.check_any(&a, 0, n.name)?;
    let protected = it.metamethod(&a[0], Mm::Metatable);
    if !protected.is_nil() {
        return Ok(vec![protected]);
    }
    Ok(vec![match it.metatable_of(&a[0]) {
        Some(m) => Value::Table(m),
        None => Value::Nil,
    }])
}

pub fn b_next(it: &mut Interp, _p: &Program, n: &Native, a: Args) -> Ret {
    let t = it.check_table(&a, 0, n.name)?;
    let r = t.borrow().next(arg(&a, 1));
    match r {
        Ok(Some((k, v))) => Ok(vec![k, v]),
        Ok(None) => Ok(vec![Value::Nil]),
        Err(()) => Err(it.lib_error(ErrClass::Other, "invalid key to 'next'")),
    }
}

fn b_pairs(it: &mut Interp, p: &Program, n: &Native, a: Args) -> Ret {
    it.check_any(&a, 0, n.name)?;
    let h = it.metamethod(&a[0], Mm::Pairs);
    if !h.is_nil() {
        let mut r = it.call_value(p, &h, vec![a[0].clone()])?;
        r.resize(3, Value::Nil);
        return Ok(r);
    }
    let next = it.registry_native("next");
    Ok(vec![next, a[0].clone(), Value::Nil])
}

fn ipairs_aux(it: &mut Interp, p: &Program, _n: &Native, a: Args) -> Ret {
    let i = to_integer(arg(&a, 1)).unwrap_or(0).wrapping_add(1);
    let v = match arg(&a, 0) {
        Value::Table(t) if t.borrow().meta.is_none() => t.borrow().get_int(i),
        other => it.index(p, other, &Value::Int(i))?,
    };
    if v.is_nil() { Ok(vec![Value::Nil]) } else { Ok(vec![Value::Int(i), v]) }
}

fn b_ipairs(it: &mut Interp, _p: &Program, n: &Native, a: Args) -> Ret {
    it.check_any(&a, 0, n.name)?;
    let aux = it.registry_native("ipairs_aux");
    Ok(vec![aux, a[0].clone(), Value::Int(0)])
}

fn b_require(it: &mut Interp, _p: &Program, n: &Native, a: Args) -> Ret {
    let s = it.check_str(&a, 0, n.name)?;
    it.requires.push(s.to_str_lossy());
    Ok(vec![Value::Bool(true)])
}

fn b_collectgarbage(it: &mut Interp, _p: &Program, n: &Native, a: Args) -> Ret {
    let opt = if arg(&a, 0).is_nil() { "collect".to_string() } else { it.check_str(&a, 0, n.name)?.to_str_lossy() };
    match opt.as_str() {
        "collect" | "step" | "stop" | "restart" | "setpause" | "setstepmul" | "incremental" | "generational" => Ok(vec![Value::Int(0)]),
        "isrunning" => Ok(vec![Value::Bool(true)]),
        "count" => unsupported("collectgarbage('count')"),
        _ => Err(it.arg_error(1, "collectgarbage", &format!("invalid option '{}'", opt))),
    }
}

pub fn open(it: &mut Interp) {
    let g = it.globals.clone();
    let _ = g.borrow_mut().set(Value::str(b"_G"), Value::Table(g.clone()));
    let _ = g.borrow_mut().set(Value::str(b"_VERSION"), Value::str(b"Lua 5.3"));
    let fns: [(&'static str, NativeFnPtr); 21] = [
        ("print", b_print), ("type", b_type), ("tostring", b_tostring), ("tonumber", b_tonumber),
        ("assert", b_assert), ("error", b_error), ("pcall", b_pcall), ("xpcall", b_xpcall),
        ("select", b_select), ("rawget", b_rawget), ("rawset", b_rawset), ("rawequal", b_rawequal),
        ("rawlen", b_rawlen), ("setmetatable", b_setmetatable), ("getmetatable", b_getmetatable),
        ("next", b_next), ("pairs", b_pairs), ("ipairs", b_ipairs), ("require", b_require),
        ("collectgarbage", b_collectgarbage), ("ipairs_aux", ipairs_aux),
    ];
    for (name, f) in fns {
        if name == "ipairs_aux" {
            it.registry.push((name, Value::Native(Rc::new(Native { name: "ipairs_aux", f, up: Default::default() }))));
        } else {
            it.register(&g, name, f);
        }
    }
    let nx = g.borrow().get_str(b"next");
    it.registry.push(("next", nx));
    crate::lib_stubs::open(it);
    crate::lib_string::open(it);
    crate::lib_table::open(it);
    crate::lib_math::open(it);
    crate::lib_os_io::open(it);
}
