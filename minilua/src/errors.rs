//! Error construction with variable info (ldebug.c: varinfo / luaG_typeerror and friends).
use crate::ast::*;
use crate::interp::{Frame, Interp};
use crate::value::*;
use crate::ErrClass;

pub const NO_EXPR: ExprId = u32::MAX;

fn is_env_expr(p: &Program, fr: &Frame, e: ExprId) -> bool {
    match p.expr(e) {
        Expr::Env => true,
        Expr::Paren(i) => is_env_expr(p, fr, *i),
        Expr::Local(_, k) => p.consts[*k as usize] == b"_ENV",
        Expr::Upval(u) => {
            let proto = &p.protos[fr.closure.proto as usize];
            match proto.upvals.get(*u as usize) {
                Some(d) => p.consts[d.name as usize] == b"_ENV",
                None => false,
            }
        }
        _ => false,
    }
}

/// " (local 'x')", " (global 'x')", " (field 'x')", " (upvalue 'x')", " (method 'x')" or "".
pub fn varinfo(p: &Program, fr: &Frame, e: ExprId) -> String {
    if e == NO_EXPR {
        return String::new();
    }
    match p.expr(e) {
        Expr::Paren(i) => varinfo(p, fr, *i),
        Expr::Local(_, k) => format!(" (local '{}')", p.const_str(*k)),
        Expr::Global(k) => format!(" (global '{}')", p.const_str(*k)),
        Expr::Upval(u) => {
            let proto = &p.protos[fr.closure.proto as usize];
            match proto.upvals.get(*u as usize) {
                Some(d) => format!(" (upvalue '{}')", p.const_str(d.name)),
                None => String::new(),
            }
        }
        Expr::Index(t, k) => {
            let kind = if is_env_expr(p, fr, *t) { "global" } else { "field" };
            match p.expr(*k) {
                Expr::Str(ks) => format!(" ({} '{}')", kind, p.const_str(*ks)),
                _ => format!(" ({} '?')", kind),
            }
        }
        _ => String::new(),
    }
}

impl Interp {
    /// luaG_typeerror: "attempt to <op> a <type> value<varinfo>"
    pub fn type_error(&self, p: &Program, fr: &Frame, e: ExprId, v: &Value, op: &str, line: u32) -> LErr {
        let class = match op {
            "call" => ErrClass::Call,
            "index" => ErrClass::Index,
            "concatenate" => ErrClass::Concat,
            _ => ErrClass::Arith,
        };
        let msg = format!("attempt to {} a {} value{}", op, v.type_name(), varinfo(p, fr, e));
        self.rt_error(class, line, &msg)
    }

    /// Type error raised from native code (no variable info available).
    pub fn type_error_plain(&self, v: &Value, op: &str) -> LErr {
        let class = if op == "index" { ErrClass::Index } else { ErrClass::Arith };
        self.rt_error(class, self.cur_line, &format!("attempt to {} a {} value", op, v.type_name()))
    }

    pub fn method_call_error(&self, p: &Program, name: KId, v: &Value, line: u32) -> LErr {
        let msg = format!("attempt to call a {} value (method '{}')", v.type_name(), p.const_str(name));
        self.rt_error(ErrClass::Call, line, &msg)
    }

    /// luaG_ordererror
    pub fn order_error(&self, a: &Value, b: &Value, line: u32) -> LErr {
        let (t1, t2) = (a.type_name(), b.type_name());
        let msg = if t1 == t2 {
            format!("attempt to compare two {} values", t1)
        } else {
            format!("attempt to compare {} with {}", t1, t2)
        };
        self.rt_error(ErrClass::Compare, line, &msg)
    }

    /// luaG_opinterror: blame the second operand unless the first is not a number.
    pub fn arith_error(
        &self, p: &Program, fr: &Frame, a: &Value, b: &Value, ea: ExprId, eb: ExprId, what: &str, line: u32,
    ) -> LErr {
        let first_bad = crate::arith::to_num(a).is_none();
        let (v, e) = if first_bad { (a, ea) } else { (b, eb) };
        self.type_error(p, fr, e, v, what, line)
    }

    /// luaG_tointerror
    pub fn toint_error(&self, p: &Program, fr: &Frame, a: &Value, ea: ExprId, eb: ExprId, line: u32) -> LErr {
        let e = if crate::arith::to_integer(a).is_none() { ea } else { eb };
        let msg = format!("number{} has no integer representation", varinfo(p, fr, e));
        self.rt_error(ErrClass::Arith, line, &msg)
    }

    /// luaG_concaterror
    pub fn concat_error(&self, p: &Program, fr: &Frame, a: &Value, b: &Value, ea: ExprId, eb: ExprId, line: u32) -> LErr {
        let (v, e) = if crate::arith::can_concat(a) { (b, eb) } else { (a, ea) };
        self.type_error(p, fr, e, v, "concatenate", line)
    }

    pub fn key_error(&self, k: crate::table::KeyError, line: u32) -> LErr {
        let msg = match k {
            crate::table::KeyError::Nil => "table index is nil",
            crate::table::KeyError::NaN => "table index is NaN",
        };
        self.rt_error(ErrClass::TableIndex, line, msg)
    }
}
