//! Pure arithmetic / comparison / coercion helpers (lvm.c, lobject.c semantics).
use crate::ast::BinOp;
use crate::numfmt::{float_to_int, float_to_string, str2number, Num};
use crate::value::Value;

/// Number or numeric string -> Num (cvt2num).
pub fn to_num(v: &Value) -> Option<Num> {
    match v {
        Value::Int(i) => Some(Num::Int(*i)),
        Value::Flt(f) => Some(Num::Flt(*f)),
        Value::Str(s) => str2number(&s.b),
        _ => None,
    }
}

/// `tonumber` macro of lvm.h: converts to a float.
pub fn to_float(v: &Value) -> Option<f64> {
    match to_num(v)? {
        Num::Int(i) => Some(i as f64),
        Num::Flt(f) => Some(f),
    }
}

/// luaV_tointeger with mode 0 (exact representation required).
pub fn to_integer(v: &Value) -> Option<i64> {
    match to_num(v)? {
        Num::Int(i) => Some(i),
        Num::Flt(f) => float_to_int(f),
    }
}

pub fn int_idiv(a: i64, b: i64) -> i64 {
    if b == -1 {
        return a.wrapping_neg();
    }
    let q = a / b;
    if (a % b != 0) && ((a ^ b) < 0) { q - 1 } else { q }
}

pub fn int_mod(a: i64, b: i64) -> i64 {
    if b == -1 {
        return 0;
    }
    let m = a % b;
    if m != 0 && (m ^ b) < 0 { m + b } else { m }
}

pub fn flt_mod(a: f64, b: f64) -> f64 {
    let m = a % b;
    if m * b < 0.0 { m + b } else { m }
}

pub fn shift_left(x: i64, y: i64) -> i64 {
    if y <= -64 || y >= 64 {
        0
    } else if y < 0 {
        ((x as u64) >> (-y) as u32) as i64
    } else {
        ((x as u64) << y as u32) as i64
    }
}

pub fn is_bitwise(op: BinOp) -> bool {
    matches!(op, BinOp::BAnd | BinOp::BOr | BinOp::BXor | BinOp::Shl | BinOp::Shr)
}

pub enum ArithErr {
    /// integer division / modulo by zero; payload is the message
    DivZero(&'static str),
    /// operands are not (convertible to) numbers
    NotNumber,
    /// bitwise operation on a float without integer representation
    NoIntRep,
}

pub fn int_arith(op: BinOp, a: i64, b: i64) -> Result<Value, ArithErr> {
    Ok(match op {
        BinOp::Add => Value::Int(a.wrapping_add(b)),
        BinOp::Sub => Value::Int(a.wrapping_sub(b)),
        BinOp::Mul => Value::Int(a.wrapping_mul(b)),
        BinOp::IDiv => {
            if b == 0 {
                return Err(ArithErr::DivZero("attempt to perform 'n//0'"));
            }
            Value::Int(int_idiv(a, b))
        }
        BinOp::Mod => {
            if b == 0 {
                return Err(ArithErr::DivZero("attempt to perform 'n%0'"));
            }
            Value::Int(int_mod(a, b))
        }
        BinOp::Div => Value::Flt(a as f64 / b as f64),
        BinOp::Pow => Value::Flt((a as f64).powf(b as f64)),
        BinOp::BAnd => Value::Int(a & b),
        BinOp::BOr => Value::Int(a | b),
        BinOp::BXor => Value::Int(a ^ b),
        BinOp::Shl => Value::Int(shift_left(a, b)),
        BinOp::Shr => Value::Int(shift_left(a, b.wrapping_neg())),
        _ => return Err(ArithErr::NotNumber),
    })
}

pub fn flt_arith(op: BinOp, a: f64, b: f64) -> Value {
    Value::Flt(match op {
        BinOp::Add => a + b,
        BinOp::Sub => a - b,
        BinOp::Mul => a * b,
        BinOp::Div => a / b,
        BinOp::Pow => a.powf(b),
        BinOp::IDiv => (a / b).floor(),
        BinOp::Mod => flt_mod(a, b),
        _ => f64::NAN,
    })
}

/// Arithmetic without metamethods (numbers and numeric strings).
pub fn raw_arith(op: BinOp, a: &Value, b: &Value) -> Result<Value, ArithErr> {
    if is_bitwise(op) {
        return match (to_integer(a), to_integer(b)) {
            (Some(x), Some(y)) => int_arith(op, x, y),
            _ => {
                if to_num(a).is_some() && to_num(b).is_some() { Err(ArithErr::NoIntRep) } else { Err(ArithErr::NotNumber) }
            }
        };
    }
    if let (Value::Int(x), Value::Int(y)) = (a, b) {
        return int_arith(op, *x, *y);
    }
    match (to_float(a), to_float(b)) {
        (Some(x), Some(y)) => Ok(flt_arith(op, x, y)),
        _ => Err(ArithErr::NotNumber),
    }
}

// ---- ordering ---------------------------------------------------------------

fn lt_int_flt(i: i64, f: f64) -> bool {
    // i < f
    if f.is_nan() {
        false
    } else if f >= 9223372036854775808.0 {
        true
    } else if f > -9223372036854775808.0 {
        // compare with ceil-like handling: i < f  <=>  i < ceil(f) when f not integral
        let fl = f.floor();
        if fl == f { i < (f as i64) } else { i <= (fl as i64) }
    } else {
        false
    }
}

fn le_int_flt(i: i64, f: f64) -> bool {
    // i <= f
    if f.is_nan() {
        false
    } else if f >= 9223372036854775808.0 {
        true
    } else if f >= -9223372036854775808.0 {
        i <= (f.floor() as i64)
    } else {
        false
    }
}

fn lt_flt_int(f: f64, i: i64) -> bool {
    // f < i
    if f.is_nan() {
        false
    } else if f >= 9223372036854775808.0 {
        false
    } else if f >= -9223372036854775808.0 {
        let c = f.ceil();
        if c == f { (f as i64) < i } else { (c as i64) <= i }
    } else {
        true
    }
}

fn le_flt_int(f: f64, i: i64) -> bool {
    // f <= i
    if f.is_nan() {
        false
    } else if f >= 9223372036854775808.0 {
        false
    } else if f >= -9223372036854775808.0 {
        (f.ceil() as i64) <= i
    } else {
        true
    }
}

/// a < b for numbers (exact across int/float); None if not both numbers.
pub fn num_lt(a: &Value, b: &Value) -> Option<bool> {
    Some(match (a, b) {
        (Value::Int(x), Value::Int(y)) => x < y,
        (Value::Flt(x), Value::Flt(y)) => x < y,
        (Value::Int(x), Value::Flt(y)) => lt_int_flt(*x, *y),
        (Value::Flt(x), Value::Int(y)) => lt_flt_int(*x, *y),
        _ => return None,
    })
}

pub fn num_le(a: &Value, b: &Value) -> Option<bool> {
    Some(match (a, b) {
        (Value::Int(x), Value::Int(y)) => x <= y,
        (Value::Flt(x), Value::Flt(y)) => x <= y,
        (Value::Int(x), Value::Flt(y)) => le_int_flt(*x, *y),
        (Value::Flt(x), Value::Int(y)) => le_flt_int(*x, *y),
        _ => return None,
    })
}

// ---- strings ----------------------------------------------------------------

/// Number -> string as `tostring` / concatenation does it.
pub fn num_to_bytes(v: &Value) -> Option<Vec<u8>> {
    match v {
        Value::Int(i) => Some(i.to_string().into_bytes()),
        Value::Flt(f) => Some(float_to_string(*f).into_bytes()),
        _ => None,
    }
}

/// String or number -> bytes (cvt2str); None for other types.
pub fn concat_piece(v: &Value) -> Option<Vec<u8>> {
    match v {
        Value::Str(s) => Some(s.b.to_vec()),
        _ => num_to_bytes(v),
    }
}

pub fn can_concat(v: &Value) -> bool {
    matches!(v, Value::Str(_) | Value::Int(_) | Value::Flt(_))
}
