//! Control flow, closures, goto, varargs, assignment (manual §3.3, §3.4.10–11).
mod common;
use common::*;

#[test]
fn closures_capture_fresh_variables() {
    check_outputs(&[
        ("local f = {} for i = 1, 3 do f[i] = function() return i end end print(f[1](), f[2](), f[3]())", "1\t2\t3\n"),
        ("local f = {} for i = 1, 3 do local j = i * 10 f[i] = function() j = j + 1 return j end end print(f[1](), f[1](), f[2](), f[3]())", "11\t12\t21\t31\n"),
        ("local f = {} local i = 1 while i <= 3 do local k = i f[i] = function() return k end i = i + 1 end print(f[1](), f[2](), f[3]())", "1\t2\t3\n"),
        ("local f = {} local i = 0 repeat local k = i f[#f + 1] = function() return k end i = i + 1 until k >= 2 print(#f, f[1](), f[3]())", "3\t0\t2\n"),
        ("local f = {} for _, v in ipairs({'a', 'b'}) do f[#f + 1] = function() return v end end print(f[1](), f[2]())", "a\tb\n"),
        ("local function counter() local c = 0 return function() c = c + 1 return c end end local a, b = counter(), counter() print(a(), a(), b(), a())", "1\t2\t1\t3\n"),
        ("local x = 1 local function get() return x end local function set(v) x = v end set(5) print(get(), x)", "5\t5\n"),
        ("local a = {} do local x = 0 a.inc = function() x = x + 1 end a.get = function() return x end end a.inc() a.inc() print(a.get())", "2\n"),
        ("local function f() local x = 0 local function g() local function h() x = x + 1 return x end return h end return g() end local h = f() print(h(), h())", "1\t2\n"),
        ("local fns = {} for i = 1, 2 do ::top:: local x = i fns[#fns + 1] = function() x = x + 1 return x end if #fns % 2 == 1 then goto top end end print(fns[1](), fns[2](), fns[1](), fns[3]())", "2\t2\t3\t3\n"),
        ("local function fact(n) if n <= 1 then return 1 end return n * fact(n - 1) end print(fact(10))", "3628800\n"),
        ("local even, odd function even(n) if n == 0 then return true end return odd(n - 1) end function odd(n) if n == 0 then return false end return even(n - 1) end print(even(10), odd(7))", "true\ttrue\n"),
        ("local x = 10 local function f() return x end local x = 20 print(f(), x)", "10\t20\n"),
        ("local x = 1 do local x = x + 1 print(x) end print(x)", "2\n1\n"),
    ]);
}

#[test]
fn goto_and_break() {
    check_outputs(&[
        ("for i = 1, 3 do for j = 1, 3 do if j == 2 then goto continue end io.write(i, j, ' ') ::continue:: end end print()", "11 13 21 23 31 33 \n"),
        ("local i = 0 while true do ::L1:: i = i + 1 if i < 5 then else break end goto L1 end print(i)", "5\n"),
        ("goto done print('skipped') ::done:: print('end')", "end\n"),
        ("local i = 1 ::top:: if i <= 3 then io.write(i, ' ') i = i + 1 goto top end print()", "1 2 3 \n"),
        ("for i = 1, 3 do for j = 1, 3 do if j == 2 then break end io.write(i, j, ' ') end end print()", "11 21 31 \n"),
        ("for i = 1, 3 do for j = 1, 3 do if i == 2 then goto out end io.write(i, j, ' ') end end ::out:: print('out')", "11 12 13 out\n"),
        ("local n = 0 repeat n = n + 1 if n == 3 then break end until false print(n)", "3\n"),
        ("local n = 0 while true do n = n + 1 do do if n > 4 then break end end end end print(n)", "5\n"),
        ("do goto l1 ::l2:: print('two') goto l3 ::l1:: print('one') goto l2 ::l3:: print('three') end", "one\ntwo\nthree\n"),
        ("local function f(n) while true do if n > 2 then return 'ret' end n = n + 1 end end print(f(0))", "ret\n"),
        ("for i = 1, 2 do local k = 0 ::again:: k = k + 1 if k < 3 then goto again end io.write(k, ' ') end print()", "3 3 \n"),
        ("local t = {} for i = 1, 5 do if i % 2 == 0 then goto cont end t[#t + 1] = i ::cont:: end print(table.concat(t, ','))", "1,3,5\n"),
        ("do local x = 1 goto e ::e:: end print('ok')", "ok\n"),
        ("local i = 0 repeat i = i + 1 if i < 3 then goto cont end do break end ::cont:: until false print(i)", "3\n"),
    ]);
}

#[test]
fn numeric_for_semantics() {
    check_outputs(&[
        ("for i = 1, 3 do io.write(i, ' ') end print()", "1 2 3 \n"),
        ("for i = 3, 1, -1 do io.write(i, ' ') end print()", "3 2 1 \n"),
        ("for i = 1, 0 do io.write(i) end print('none')", "none\n"),
        ("for i = 1.0, 3 do io.write(i, ' ') end print()", "1.0 2.0 3.0 \n"),
        ("for i = 1, 2, 0.5 do io.write(i, ' ') end print()", "1.0 1.5 2.0 \n"),
        ("for i = 1, 3.5 do io.write(i, ' ') end print()", "1 2 3 \n"),
        ("for i = 10, 1, -3 do io.write(i, ' ') end print()", "10 7 4 1 \n"),
        ("for i = 1, 3 do local j = i i = i * 10 io.write(j, ':', i, ' ') end print()", "1:10 2:20 3:30 \n"),
        ("for i = math.maxinteger - 1, math.huge do io.write(i, ' ') if i == math.maxinteger then break end end print()", "9223372036854775806 9223372036854775807 \n"),
        ("for i = 1, -math.huge, -1 do if i < -2 then break end io.write(i, ' ') end print()", "1 0 -1 -2 \n"),
        ("local n = 0 for i = 1, 3 do n = n + i end print(n, i)", "6\tnil\n"),
        ("for i = '1', 2 do io.write(i, ' ') end print()", "1.0 2.0 \n"),
    ]);
    check_errors(&[
        ("for i = 1, 'x' do end", minilua::ErrClass::ForLoop, "input:1: 'for' limit must be a number"),
        ("for i = {}, 2 do end", minilua::ErrClass::ForLoop, "input:1: 'for' initial value must be a number"),
        ("for i = 1, 2, {} do end", minilua::ErrClass::ForLoop, "input:1: 'for' step must be a number"),
    ]);
}

#[test]
fn varargs_select_unpack() {
    check_outputs(&[
        ("local function f(...) return select('#', ...) end print(f(), f(nil), f(1, nil, nil))", "0\t1\t3\n"),
        ("local function f(...) local a, b = ... return a, b end print(f(1, 2, 3))", "1\t2\n"),
        ("local function f(...) return ... end print(f(1, 2, 3), f(4, 5))", "1\t4\t5\n"),
        ("local function f(...) return (...) end print(f(1, 2, 3))", "1\n"),
        ("local function f(...) local t = {...} return #t, t[2] end print(f('a', 'b', 'c'))", "3\tb\n"),
        ("local function f(a, ...) return a, select('#', ...) end print(f(1), f(1, 2, 3))", "1\t1\t2\n"),
        ("print(select(2, 'a', 'b', 'c'))", "b\tc\n"),
        ("print(select(-1, 'a', 'b', 'c'))", "c\n"),
        ("print(select(-2, 'a', 'b', 'c'))", "b\tc\n"),
        ("print(select('#'), select('#', nil, nil), select(4, 1, 2, 3))", "0\t2\n"),
        ("print(pcall(select, 0, 1))", "false\tbad argument #1 to 'select' (index out of range)\n"),
        ("print(table.unpack({1, 2, 3}))", "1\t2\t3\n"),
        ("print(table.unpack({1, 2, 3}, 2))", "2\t3\n"),
        ("print(table.unpack({1, 2, 3}, 2, 5))", "2\t3\tnil\tnil\n"),
        ("print(table.unpack({}, 1, 0))", "\n"),
        ("local t = table.pack(1, nil, 3) print(t.n, t[1], t[2], t[3])", "3\t1\tnil\t3\n"),
        ("local function f() return 1, 2 end local t = {f(), f()} print(#t) local u = {f(), (f())} print(#u)", "3\n2\n"),
        ("local function f() return 1, 2, 3 end local a, b, c, d = f() print(a, b, c, d) local x, y = f(), 10 print(x, y)", "1\t2\t3\tnil\n1\t10\n"),
        ("local function none() end print(none()) print((none())) local a = none() print(a)", "\nnil\nnil\n"),
        ("print((select('#', table.unpack({n = 3}, 1, 3))))", "3\n"),
        ("local function f(...) local n = 0 for i, v in ipairs({...}) do n = n + v end return n end print(f(1, 2, 3, 4))", "10\n"),
        ("print(...)", "\n"),
    ]);
}

#[test]
fn assignment_semantics() {
    check_outputs(&[
        ("local i = 3 local a = {} i, a[i] = i + 1, 20 print(i, a[3], a[4])", "4\t20\tnil\n"),
        ("local x, y = 1, 2 x, y = y, x print(x, y)", "2\t1\n"),
        ("local a, b, c = 1 print(a, b, c) local d, e = 1, 2, 3 print(d, e)", "1\tnil\tnil\n1\t2\n"),
        ("local t = {} t.a, t.b = 1 print(t.a, t.b)", "1\tnil\n"),
        ("local log = {} local function f(n) log[#log + 1] = n return n end local t = {} t[f(1)], t[f(2)] = f(3), f(4) print(table.concat(log, ','), t[1], t[2])", "1,2,3,4\t3\t4\n"),
        ("local a a, a = 1, 2 print(a)", "1\n"),
        ("local t = {1, 2} local i = 1 i, t[i] = 2, 'x' print(i, t[1], t[2])", "2\tx\t2\n"),
        ("x = 1 local function f() x = x + 1 return x end print(f(), x, _G.x, _G['x'])", "2\t2\t2\t2\n"),
        ("a = {b = {c = 1}} a.b.c = a.b.c + 1 a.b['d'] = 5 print(a.b.c, a.b.d)", "2\t5\n"),
        ("local t = {} function t.f(x) return x end function t:m(x) return self == t, x end print(t.f(1), t:m(2))", "1\ttrue\t2\n"),
        ("local t = {n = {}} function t.n.f() return 'deep' end function t.n:g() return self == t.n end print(t.n.f(), t.n:g())", "deep\ttrue\n"),
        ("local s = 0 local t = {10, 20, 30} for i, v in ipairs(t) do s = s + i * v end print(s)", "140\n"),
        ("local t = {1, 2, nil, 4} local n = 0 for _ in ipairs(t) do n = n + 1 end print(n)", "2\n"),
        ("print(1 and 2, nil and 1, false or 'x', nil or false, 1 or error('no'), not nil, not 0)", "2\tnil\tx\tfalse\t1\ttrue\tfalse\n"),
        ("print(1 < 2 == true, 'a' .. 'b' == 'ab', 2 ^ 3 ^ 2, -2 ^ 2, not 1 == 2, 1 .. 2 .. 3, 2 * 3 + 4, 2 + 3 * 4)", "true\ttrue\t512.0\t-4.0\tfalse\t123\t10\t14\n"),
        ("print(1 + 2 < 4, 1 | 2 ~ 3 & 4, 1 << 2 + 1, 'a' < 'b' and 'yes' or 'no', #'abc' + 1, -3 % 5, 5 // 2 * 2)", "true\t3\t8\tyes\t4\t2\t4\n"),
    ]);
}
