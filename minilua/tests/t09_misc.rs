//! The `lua` binary, memory hygiene, _ENV/_G, and assorted semantics.
mod common;
use common::*;
use std::io::Write;
use std::process::{Command, Stdio};

fn run_bin(args: &[&str], stdin: &str, env: &[(&str, &str)]) -> (i32, String, String) {
    let mut cmd = Command::new(env!("CARGO_BIN_EXE_lua"));
    cmd.args(args).stdin(Stdio::piped()).stdout(Stdio::piped()).stderr(Stdio::piped());
    for (k, v) in env {
        cmd.env(k, v);
    }
    let mut child = cmd.spawn().expect("spawn lua");
    child.stdin.take().unwrap().write_all(stdin.as_bytes()).unwrap();
    let o = child.wait_with_output().unwrap();
    (o.status.code().unwrap_or(-1), String::from_utf8_lossy(&o.stdout).into_owned(), String::from_utf8_lossy(&o.stderr).into_owned())
}

#[test]
fn lua_binary_behaviour() {
    assert_eq!(run_bin(&[], "print('hi') io.write('x\\n')", &[]), (0, "hi\nx\n".into(), "".into()));
    assert_eq!(run_bin(&["-"], "print(1 + 1)", &[]), (0, "2\n".into(), "".into()));
    let (code, out, err) = run_bin(&[], "print('a')\nerror('boom')", &[]);
    assert_eq!((code, out.as_str(), err.as_str()), (1, "a\n", "lua: input:2: boom\n"));
    let (code, _, err) = run_bin(&[], "x = = 1", &[]);
    assert_eq!((code, err.as_str()), (1, "lua: input:1: unexpected symbol near '='\n"));
    let (code, _, err) = run_bin(&[], "assert(false, 'Assert failed!')", &[]);
    assert_eq!((code, err.as_str()), (1, "lua: Assert failed!\n"));
    let (code, _, err) = run_bin(&[], "coroutine.wrap(print)", &[]);
    assert_eq!(code, 2);
    assert!(err.starts_with("minilua:"), "{}", err);
    let (code, out, err) = run_bin(&[], "print('x') while true do end", &[("MINILUA_MAX_STEPS", "10000")]);
    assert_eq!((code, out.as_str()), (2, "x\n"));
    assert!(err.starts_with("minilua:"), "{}", err);
    let path = std::env::temp_dir().join(format!("minilua_test_{}.lua", std::process::id()));
    std::fs::write(&path, "#!/usr/bin/env lua\nprint('from file')\n").unwrap();
    assert_eq!(run_bin(&[path.to_str().unwrap()], "", &[]), (0, "from file\n".into(), "".into()));
    let _ = std::fs::remove_file(&path);
    let (code, _, err) = run_bin(&["/nonexistent/file.lua"], "", &[]);
    assert_eq!(code, 1);
    assert!(err.starts_with("lua: cannot open"), "{}", err);
}

fn rss_kb() -> usize {
    let s = std::fs::read_to_string("/proc/self/statm").unwrap_or_default();
    s.split_whitespace().nth(1).and_then(|p| p.parse::<usize>().ok()).unwrap_or(0) * 4
}

#[test]
fn repeated_runs_do_not_leak() {
    // closures and tables in reference cycles, reachable from globals, locals and upvalues
    let src = r#"
        local function mk() local self = {} self.me = self self.f = function() return self end return self end
        G = {} for i = 1, 200 do G[i] = mk() end
        local ring = {} ring.next = {next = ring}
        local function rec() return rec end
        KEEP = {ring = ring, rec = rec, big = string.rep('x', 10000)}
    "#;
    let chunk = minilua::load(src).unwrap();
    let o = minilua::RunOptions::default();
    for _ in 0..200 {
        assert_eq!(minilua::run(&chunk, &o).outcome, minilua::Outcome::Done);
    }
    let before = rss_kb();
    for _ in 0..2000 {
        minilua::run(&chunk, &o);
    }
    let after = rss_kb();
    if before > 0 {
        assert!(after < before + 20_000, "RSS grew from {} KB to {} KB over 2000 runs", before, after);
    }
}

#[test]
fn globals_table_and_env() {
    check_outputs(&[
        ("x = 5 print(_G.x, _G._G == _G, _ENV == _G, _ENV.x, _VERSION)", "5\ttrue\ttrue\t5\tLua 5.3\n"),
        ("_G.y = 7 print(y) _G['z z'] = 1 print(_G['z z'])", "7\n1\n"),
        ("setmetatable(_G, {__index = function(t, k) return 'dflt_' .. k end}) print(undefined_thing, rawget(_G, 'undefined_thing'))", "dflt_undefined_thing\tnil\n"),
        ("setmetatable(_G, {__newindex = function(t, k, v) rawset(t, k, v * 2) end}) a = 21 print(a) a = 1 print(a)", "42\n1\n"),
        ("local _ENV = {print = print} x = 1 print(x, _ENV.x)", "1\t1\n"),
        ("local print = print local function f(_ENV) return x end print(f({x = 'env'}))", "env\n"),
        ("local p, pc = print, pcall do local _ENV = {} p(pc(function() return nope.field end)) end", "false\tinput:1: attempt to index a nil value (global 'nope')\n"),
        ("local n = 0 for k in pairs(_G) do n = n + 1 end print(n > 20, type(_G.string), type(_G.math), type(_G.table), type(_G.os), type(_G.io))", "true\ttable\ttable\ttable\ttable\ttable\n"),
        ("print(type(os.time()), os.time() > 1600000000, type(os.clock()), os.clock() >= 0)", "number\ttrue\tnumber\ttrue\n"),
        ("print(collectgarbage(), collectgarbage('collect'), type(package.loaded))", "0\t0\ttable\n"),
    ]);
}

#[test]
fn assorted_semantics() {
    check_outputs(&[
        ("local a, b = (function() local x = 0 return function() x = x + 1 return x end, function() return x end end)() a() a() print(b())", "2\n"),
        ("local t = {} function t.new() return setmetatable({n = 0}, {__index = t}) end function t:inc() self.n = self.n + 1 return self end print(t.new():inc():inc():inc().n)", "3\n"),
        ("local s = 0 for i = 1, 10 do if i % 2 == 0 then goto cont end s = s + i ::cont:: end print(s)", "25\n"),
        ("local function f(a, b, c) return a, b, c end print(f(1), f(1, 2, 3, 4))", "1\t1\t2\t3\n"),
        ("local t = {f = function(...) return select('#', ...) end} print(t.f(), t:f(), t.f(nil, nil), t:f(1))", "0\t1\t2\t2\n"),
    ]);
    check_outputs(&[
        ("print(2^31 | 0, 1 // 1, 1.0 // 1, 3 % -2, -3 % 2, 3.5 % -2, 5 // -2.0)", "2147483648\t1\t1.0\t-1\t1\t-0.5\t-3.0\n"),
        ("print(math.maxinteger // -1, math.mininteger // -1, math.maxinteger % -1, 7 // 1, -7 // 2, -7 % -2)", "-9223372036854775807\t-9223372036854775808\t0\t7\t-4\t-1\n"),
        ("print(1e308 * 10, -1e308 * 10, 2^1024, math.huge // 1, 5 % math.huge, -5 % -math.huge)", "inf\t-inf\tinf\tinf\t5.0\t-5.0\n"),
        ("local t = {} t[1] = 1 t[2] = 2 t[3] = 3 t[2] = nil print(#t == 3 or #t == 1, t[3])", "true\t3\n"),
        ("local t = setmetatable({}, {__index = table}) t:insert('a') t:insert('b') print(t:concat(','), #t)", "a,b\t2\n"),
        ("local a = {1, 2, 3} local b = a b[1] = 'x' print(a[1], a == b, {} == {})", "x\ttrue\tfalse\n"),
        ("local function f() return 1, 2, 3 end local t = {f(), f()} print(#t, (f()))", "4\t1\n"),
        ("do local a = 1 do local a = 2 do local a = 3 print(a) end print(a) end print(a) end", "3\n2\n1\n"),
        ("local i = 1 local t = {} while i <= 3 do t[i] = function() return i end i = i + 1 end print(t[1](), t[2](), t[3]())", "4\t4\t4\n"),
        ("print(('abc'):find('b', 1, true), ('a b'):match('^(%S+)%s+(%S+)$'))", "2\ta\tb\n"),
        ("print(tostring(1e15), 1e15 == 10^15, 2^63 == math.maxinteger + 1.0, math.maxinteger + 1.0 > math.maxinteger)", "1e+15\ttrue\ttrue\ttrue\n"),
        ("print(string.format('%d', -0), -0 == 0, 0.0 == -0.0, 1/0.0 == 1/-0.0, 3 == 3.0000000000000001)", "0\ttrue\ttrue\tfalse\ttrue\n"),
    ]);
}

