//! Number model and number formatting (Lua 5.3 manual §3.4.1–3.4.3, lobject.c tostringbuff).
mod common;
use common::*;

#[test]
fn number_formatting() {
    check_outputs(&[
        ("print(1/2, 3//2, 3.0//2, 7%3, -7%3, 7%-3)", "0.5\t1\t1.0\t1\t2\t-2\n"),
        ("print(2^2, 10/2, 1e15, 1e14, 2^53, 2^63)", "4.0\t5.0\t1e+15\t1e+14\t9.007199254741e+15\t9.2233720368548e+18\n"),
        ("print(math.maxinteger+1, 1e100, 0.1+0.2, 100000000000000, 1e14*10)", "-9223372036854775808\t1e+100\t0.3\t100000000000000\t1e+15\n"),
        ("print(2.0, -0.0, 0.1, 1e13, 123456789012345.0)", "2.0\t-0.0\t0.1\t10000000000000.0\t1.2345678901234e+14\n"),
        ("print(1/0, -1/0, math.huge, -math.huge)", "inf\t-inf\tinf\t-inf\n"),
        ("print(3.14159265358979, 1/3, 2/3, 100/3)", "3.1415926535898\t0.33333333333333\t0.66666666666667\t33.333333333333\n"),
        ("print(1e-5, 0.0001, 1e-4, 123e-7)", "1e-05\t0.0001\t0.0001\t1.23e-05\n"),
        ("print(255, -1, 0, math.mininteger, math.maxinteger)", "255\t-1\t0\t-9223372036854775808\t9223372036854775807\n"),
        ("print(1e15+0.5, 2^24, 2^-1, 10^2)", "1e+15\t16777216.0\t0.5\t100.0\n"),
        ("print(5 // 0.0, -5 // 0.0, 5 % math.huge, -5 % math.huge)", "inf\t-inf\t5.0\tinf\n"),
        ("print(tostring(1e15), tostring(-1e15), tostring(1e16))", "1e+15\t-1e+15\t1e+16\n"),
        ("print(99999999999999.0, 999999999999999.0)", "99999999999999.0\t1e+15\n"),
        ("print(0.1 + 0.7, 1 - 0.9, 4.35 * 100)", "0.8\t0.1\t435.0\n"),
        ("print(2^0.5, 8 // 3.0, 8 % 3.5, -8 // 3)", "1.4142135623731\t2.0\t1.0\t-3\n"),
    ]);
}

#[test]
fn nan_prints_as_nan() {
    let o = out("print(0/0)");
    assert!(o == "nan\n" || o == "-nan\n", "{:?}", o);
    let o = out("local x = 0/0 print(x ~= x, x == x)");
    assert_eq!(o, "true\tfalse\n");
}

#[test]
fn integer_float_distinction() {
    check_outputs(&[
        ("print(math.type(1), math.type(1.0), math.type('1'), math.type(2^31))", "integer\tfloat\tnil\tfloat\n"),
        ("print(1 == 1.0, 1 < 1.5, 2^53 == 2^53 + 1, math.maxinteger + 0.0 == math.maxinteger)", "true\ttrue\ttrue\tfalse\n"),
        ("print(math.maxinteger < math.maxinteger + 0.0, math.mininteger <= -2^63, math.maxinteger + 1 == math.mininteger)", "true\ttrue\ttrue\n"),
        ("print(3 + 4, 3 + 4.0, 3 * 2, 3 * 2.0, 7 - 2, 7 - 2.0, -3, -3.0)", "7\t7.0\t6\t6.0\t5\t5.0\t-3\t-3.0\n"),
        ("print(7 // 2, 7.0 // 2, -7 // 2, 7 // -2, 7 % -3, -7 % 3, 7.5 % 2, -7.5 % 2)", "3\t3.0\t-4\t-4\t-2\t2\t1.5\t0.5\n"),
        ("print(6 / 2, 2 ^ 2, 7 / 2)", "3.0\t4.0\t3.5\n"),
        ("print(math.maxinteger * 2, math.mininteger - 1, math.mininteger // -1, math.mininteger % -1)", "-2\t9223372036854775807\t-9223372036854775808\t0\n"),
        ("print(9223372036854775807, 9223372036854775808, -9223372036854775808)", "9223372036854775807\t9.2233720368548e+18\t-9.2233720368548e+18\n"),
        ("print(0xff, 0x10, 0xA.8p0, 0x.8p1, 0xffffffffffffffff, 0x7fffffffffffffff)", "255\t16\t10.5\t1.0\t-1\t9223372036854775807\n"),
        ("print(1e5, .5, 3., 5e-1, 0x1p4, 1E2)", "100000.0\t0.5\t3.0\t0.5\t16.0\t100.0\n"),
        ("print(3 | 0, 3.0 | 0, '3' | 0, 2^53 | 0)", "3\t3\t3\t9007199254740992\n"),
        ("print(3 & 5, 3 | 5, 3 ~ 5, ~0, ~5, 1 << 62, 1 << 63, 1 << 64, -1 >> 1, -1 >> 63, 1 << -1, 2 >> -1)",
         "1\t7\t6\t-1\t-6\t4611686018427387904\t-9223372036854775808\t0\t9223372036854775807\t1\t0\t4\n"),
        ("print(math.tointeger(3.0), math.tointeger(3.5), math.tointeger('8'), math.tointeger({}))", "3\tnil\t8\tnil\n"),
        ("print(1 < 2, 1 <= 1.0, 2 > 1.5, 'a' < 'b', 'a' < 'B', 'abc' < 'abd', '' < 'a', 'Z' < 'a')", "true\ttrue\ttrue\ttrue\tfalse\ttrue\ttrue\ttrue\n"),
    ]);
}

#[test]
fn string_number_coercions() {
    check_outputs(&[
        // 5.3: string operands are converted to floats by the arithmetic operators
        ("print('10' + 1, '3' * '4', '0x10' + 0, ' 5 ' + 0, '1e1' + 0, -'2')", "11.0\t12.0\t16.0\t5.0\t10.0\t-2.0\n"),
        ("print(10 .. '', 1.5 .. 'x', 1.0 .. '', -0.0 .. '', 2^63 .. '', 1e100 .. '')", "10\t1.5x\t1.0\t-0.0\t9.2233720368548e+18\t1e+100\n"),
        ("print(1 .. 2, 'a' .. 1 .. 'b' .. 2.5)", "12\ta1b2.5\n"),
        ("print(tonumber('10'), tonumber('10.0'), tonumber('0x10'), tonumber('  12  '), tonumber('1e2'), tonumber('abc'), tonumber(''), tonumber('1 2'))",
         "10\t10.0\t16\t12\t100.0\tnil\tnil\tnil\n"),
        ("print(tonumber('ff', 16), tonumber('zz', 36), tonumber('777', 8), tonumber('8', 8), tonumber('-10', 2), tonumber('1.5', 10))", "255\t1295\t511\tnil\t-2\tnil\n"),
        ("print(tonumber(nil), tonumber(true), tonumber({}), tonumber(5), tonumber(5.5))", "nil\tnil\tnil\t5\t5.5\n"),
        ("print(tonumber('inf'), tonumber('nan'), tonumber('0x'), tonumber('1e'), tonumber('.'), tonumber('5.'), tonumber('.5'))", "nil\tnil\tnil\tnil\tnil\t5.0\t0.5\n"),
        ("print(tonumber('9223372036854775807'), tonumber('9223372036854775808'), tonumber('-9223372036854775808'))", "9223372036854775807\t9.2233720368548e+18\t-9223372036854775808\n"),
        ("print('10' == 10, '1' < '2', '10' < '9')", "false\ttrue\ttrue\n"),
        ("print(#'abc', #'', #'a\\0b')", "3\t0\t3\n"),
        ("print(tostring(12), tostring(1.0), tostring(nil), tostring(true), tostring(false), tostring('x'))", "12\t1.0\tnil\ttrue\tfalse\tx\n"),
        ("print(math.floor(3.7), math.floor(-3.7), math.ceil(3.2), math.ceil(-3.2), math.floor(5), math.floor(2^70))", "3\t-4\t4\t-3\t5\t1.1805916207174e+21\n"),
    ]);
}

#[test]
fn math_library() {
    check_outputs(&[
        ("print(math.abs(-3), math.abs(-3.5), math.abs(math.mininteger), math.sqrt(16), math.sqrt(2))", "3\t3.5\t-9223372036854775808\t4.0\t1.4142135623731\n"),
        ("print(math.modf(3.7))", "3.0\t0.7\n"),
        ("print(math.modf(-3.7))", "-3.0\t-0.7\n"),
        ("print(math.modf(5))", "5\t0.0\n"),
        ("print(math.modf(1/0))", "inf\t0.0\n"),
        ("print(math.fmod(7, 3), math.fmod(-7, 3), math.fmod(7, -3), math.fmod(7.5, 2), math.fmod(-7.5, 2))", "1\t-1\t1\t1.5\t-1.5\n"),
        ("print(math.max(1, 2.5), math.max(3, 2), math.min(1, 2.5), math.min(1.0, 1), math.max(2, 2.0))", "2.5\t3\t1\t1.0\t2\n"),
        ("print(math.pi, math.sin(0), math.cos(0), math.exp(0), math.log(1), math.log(8, 2), math.log(100, 10))", "3.1415926535898\t0.0\t1.0\t1.0\t0.0\t3.0\t2.0\n"),
        ("print(math.atan2, math.pow, math.cosh, math.ldexp, unpack, loadstring, table.getn)", "nil\tnil\tnil\tnil\tnil\tnil\tnil\n"),
        ("print(math.atan(1, 1) * 4 == math.pi, math.atan(0), math.ult(1, -1), math.ult(-1, 1))", "true\t0.0\ttrue\tfalse\n"),
        ("math.randomseed(42) local a = math.random(1, 10) print(a >= 1 and a <= 10, math.type(a), math.type(math.random()))", "true\tinteger\tfloat\n"),
        ("local ok = true for i = 1, 200 do local r = math.random(0, 3) if r < 0 or r > 3 then ok = false end end print(ok)", "true\n"),
        ("local ok = true for i = 1, 200 do local r = math.random() if r < 0 or r >= 1 then ok = false end end print(ok)", "true\n"),
        ("print(pcall(math.random, 2, 1))", "false\tbad argument #2 to 'random' (interval is empty)\n"),
        ("print(pcall(math.floor, 'x'))", "false\tbad argument #1 to 'floor' (number expected, got string)\n"),
        ("print(pcall(math.fmod, 1, 0))", "false\tbad argument #2 to 'fmod' (zero)\n"),
    ]);
}

#[test]
fn random_is_deterministic_per_seed() {
    let src = "local t = {} for i = 1, 5 do t[i] = math.random(1, 1000) end print(table.concat(t, ','))";
    let a = minilua::run_source(src, &minilua::RunOptions { seed: 7, ..Default::default() }).unwrap().output;
    let b = minilua::run_source(src, &minilua::RunOptions { seed: 7, ..Default::default() }).unwrap().output;
    let c = minilua::run_source(src, &minilua::RunOptions { seed: 8, ..Default::default() }).unwrap().output;
    assert_eq!(a, b);
    assert_ne!(a, c);
}
