//! Robustness: `load` and `run` never panic, whatever the input.
use minilua::*;

const PREAMBLE: &str = "/repo/sylt-compiler/src/preamble.lua";

const SAMPLE: &str = r##"
local t = setmetatable({}, {__index = function(t, k) return k end, __call = function(self, a) return a end})
local function f(a, b, ...) local x, y = ..., a while a do a = not a goto c ::c:: end return x, y, b end
for i = 1, 3 do for k, v in pairs({i, i + 1, x = "s"}) do t[k] = v .. i end end
repeat local z = f(1, 2, 3) until z or true
print(("%5.2f %s %q"):format(1.5, t, "q\n"), #t, t(4), t.zzz, 0x10, 1e2, 3 // 2, 2 ^ 0.5, 7 % 3, ~5, 1 << 2, "a" .. 1)
print(string.gsub("hello world", "(%w+)", "<%1>"), string.find("abc", "b", 1, true), math.floor(2.5), select("#", 1, 2))
print(pcall(error, {1}), pcall(function() local n = nil; return n.x end), tostring(nil), tonumber("0x1p4"))
local s = [==[long ]] string]==] --[[ comment ]] print(#s, s:sub(2, 3):upper(), table.concat({1, 2, 3}, "-"))
"##;

struct Rng(u64);
impl Rng {
    fn next(&mut self) -> u64 {
        self.0 ^= self.0 << 13;
        self.0 ^= self.0 >> 7;
        self.0 ^= self.0 << 17;
        self.0
    }
}

fn check_no_internal_error(src: &str) {
    let o = RunOptions { max_steps: 20_000, max_call_depth: 200, ..Default::default() };
    match run_source(src, &o) {
        Err(e) => assert!(e.message.starts_with("input:"), "odd load error {:?} for {:?}", e.message, src),
        Ok(r) => {
            if let Outcome::Unsupported(m) = &r.outcome {
                assert!(!m.contains("internal error"), "internal error {:?} for source {:?}", m, src);
            }
        }
    }
}

#[test]
fn sample_program_is_valid() {
    let r = run_source(SAMPLE, &RunOptions::default()).expect("sample loads");
    assert_eq!(r.outcome, Outcome::Done, "output: {}", r.output);
}

#[test]
fn truncated_programs_never_panic() {
    let mut srcs = vec![SAMPLE.to_string()];
    if let Ok(p) = std::fs::read_to_string(PREAMBLE) {
        srcs.push(p);
    }
    for src in srcs {
        let bytes = src.as_bytes();
        let mut i = 0;
        while i < bytes.len() {
            if let Ok(prefix) = std::str::from_utf8(&bytes[..i]) {
                let r = std::panic::catch_unwind(|| load(prefix).map(|_| ()));
                assert!(r.is_ok(), "load panicked on prefix of length {}", i);
            }
            i += 3;
        }
    }
}

#[test]
fn mutated_programs_never_panic_or_hit_internal_errors() {
    let alphabet: &[u8] = b" \n()[]{}=+-*/%^#~<>.,:;\"'\\0123456789abefnlrtx_EXP";
    let keywords = ["end", "do", "then", "local", "function", "return", "goto", "break", "nil", "::", "...", "..", "//", "not", "and", "or", "if", "else", "elseif", "while", "for", "in", "repeat", "until"];
    let mut rng = Rng(0x1234_5678_9abc_def1);
    let base = SAMPLE.as_bytes();
    for _ in 0..600 {
        let mut b = base.to_vec();
        let nmut = 1 + (rng.next() % 4) as usize;
        for _ in 0..nmut {
            let pos = (rng.next() as usize) % b.len();
            match rng.next() % 4 {
                0 => b[pos] = alphabet[(rng.next() as usize) % alphabet.len()],
                1 => {
                    b.remove(pos);
                }
                2 => {
                    let kw = keywords[(rng.next() as usize) % keywords.len()];
                    let ins = format!(" {} ", kw);
                    b.splice(pos..pos, ins.bytes());
                }
                _ => {
                    let end = (pos + (rng.next() as usize) % 20).min(b.len());
                    b.drain(pos..end);
                }
            }
        }
        let src = String::from_utf8_lossy(&b).into_owned();
        check_no_internal_error(&src);
    }
}

#[test]
fn weird_inputs() {
    for src in [
        "", " ", "\n\n", "#", "#!shebang only", "--", "--[[", "--[==[ x ]==]", ";", ";;;", "\0", "\u{feff}print(1)", "return", "return;",
        "return return", "::a::", "goto a ::a::", "x = 'unterminated", "x = \"\\", "x = [[", "x = [==[ ]=]", "x = 0x", "x = 1e+", "x = ..",
        "x = ...", "f(", "f{", "f'", "a.b.c:d", "local", "local function", "function", "function f", "function f(", "function f(a,", "for", "for i",
        "for i =", "for i = 1", "for i = 1,", "for i = 1, 2", "for i = 1, 2 do", "for a, b in", "if", "if x", "if x then", "if x then else", "while", "repeat",
        "repeat until", "do", "end", "until", "then", "elseif", "else", "in", "and", "or 1", "not", "x = not", "x = -", "x = #", "x = ~", "x = {", "x = {1,", "x = {[1]",
        "x = {[1] =", "x = {a =", "x = (", "x = ((", "x = a[", "x = a[1", "x = a.", "x = a:", "x = a:b", "x, = 1", "x, y", "x y", "1 = 2", "'a' = 1", "a.b:c = 1",
        "\u{e9} = 1", "x = '\\u{110000}'", "x = '\\u{}'", "x = '\\u{12'", "x = '\\x1'", "x = '\\256'", "x = 1 .. ", "x = 1 // ", "x = a < < b", "goto goto", "break break",
    ] {
        let r = std::panic::catch_unwind(|| check_no_internal_error(src));
        assert!(r.is_ok(), "failed on {:?}", src);
    }
}
