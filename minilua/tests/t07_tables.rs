//! Tables: length, iteration order, next, table library.
mod common;
use common::*;

#[test]
fn length_and_borders() {
    check_outputs(&[
        ("local t = {} for i = 1, 10 do t[#t + 1] = i end print(#t, t[1], t[10])", "10\t1\t10\n"),
        ("local t = {} for i = 1, 100 do table.insert(t, i) end for i = 1, 40 do table.remove(t) end print(#t, t[60], t[61])", "60\t60\tnil\n"),
        ("local t = {1, 2, 3} t[#t] = nil print(#t) t[#t + 1] = 'x' print(#t, t[3])", "2\n3\tx\n"),
        ("local t = {} for i = 10, 1, -1 do t[i] = i end print(#t)", "10\n"),
        ("local t = {} t[1] = 1 t[2] = 2 t[4] = 4 print(#t == 2 or #t == 4) t[3] = 3 print(#t)", "true\n4\n"),
        ("print(#{}, #{1, 2, 3}, #{n = 1}, #{1, 2, nil}, #{nil}, #{nil, nil, 3})", "0\t3\t0\t2\t0\t3\n"),
        ("local t = {10, 20, 30, x = 1} print(#t, t.x) t.x = nil print(#t)", "3\t1\n3\n"),
        ("local t = {[1] = 'a', [2] = 'b', [3] = 'c'} print(#t)", "3\n"),
        ("local t = {[1] = 'x', 'y'} print(t[1], #t)", "y\t1\n"),
        ("local t = {} t[1.0] = 'a' t[2^53] = 'b' print(t[1], #t, t[2^53 | 0], next({[3.0] = 1}))", "a\t1\tb\t3\t1\n"),
        ("local t = {} t[1] = 'i' t[1.5] = 'f' t['1'] = 's' print(t[1], t[1.5], t['1'], t[1.0])", "i\tf\ts\ti\n"),
        ("local function f() return 1, 2, 3 end print(#{f()}, #{f(), f()}, #{(f())}, #{f(), nil})", "3\t4\t1\t1\n"),
        ("local q = {} for i = 1, 5 do q[#q + 1] = i end local out = {} while #q > 0 do out[#out + 1] = table.remove(q, 1) end print(table.concat(out, ','), #q)", "1,2,3,4,5\t0\n"),
        ("local s = {} for i = 1, 5 do s[#s + 1] = i end local out = {} while #s > 0 do out[#out + 1] = s[#s] s[#s] = nil end print(table.concat(out, ','), #s)", "5,4,3,2,1\t0\n"),
        ("print(rawlen({1, 2}), rawlen('abc'), rawequal('a', 'a'), rawget({5}, 1))", "2\t3\ttrue\t5\n"),
    ]);
}

#[test]
fn pairs_order_is_array_then_insertion() {
    check_outputs(&[
        ("local t = {10, 20, 30} t.x = 'a' t.y = 'b' t.a = 'c' for k, v in pairs(t) do io.write(tostring(k), '=', tostring(v), ' ') end print()", "1=10 2=20 3=30 x=a y=b a=c \n"),
        ("local t = {z = 1, y = 2, x = 3} local ks = {} for k in pairs(t) do ks[#ks + 1] = k end print(table.concat(ks))", "zyx\n"),
        ("local t = {} t.b = 1 t.a = 2 t.c = 3 t.a = nil t.d = 4 local ks = {} for k in pairs(t) do ks[#ks + 1] = k end print(table.concat(ks))", "bcd\n"),
        ("local t = {a = 1, b = 2, c = 3} for k in pairs(t) do t[k] = nil end print(next(t))", "nil\n"),
        ("local t = {1, 2, 3, 4} for k in pairs(t) do t[k] = nil end print(next(t), #t)", "nil\t0\n"),
        ("local t = {1, 2, 3, a = 1, b = 2} local n = 0 for k, v in pairs(t) do t[k] = nil n = n + 1 end print(n, next(t))", "5\tnil\n"),
        ("local t = {a = 1, b = 2} for k, v in pairs(t) do t[k] = v * 10 end print(t.a, t.b)", "10\t20\n"),
        ("print(next({}), next({5}), next({5}, 1), next({a = 1}))", "nil\t1\tnil\ta\t1\n"),
        ("print(pcall(next, {}, 'nokey'))", "false\tinvalid key to 'next'\n"),
        ("local t = {} for i = 1, 20 do t['k' .. i] = i end for i = 1, 19 do t['k' .. i] = nil end t.new = 1 local ks = {} for k in pairs(t) do ks[#ks + 1] = k end print(table.concat(ks, ','))", "k20,new\n"),
        ("local t = {[3] = 'c', [1] = 'a', [2] = 'b'} local ks = {} for k, v in pairs(t) do ks[#ks + 1] = k .. v end print(table.concat(ks, ' '))", "1a 2b 3c\n"),
        ("local t = {} t[5] = 5 t[1] = 1 t.x = 'x' t[2] = 2 local ks = {} for k in pairs(t) do ks[#ks + 1] = tostring(k) end print(table.concat(ks, ' '))", "1 2 5 x\n"),
        ("for i, v in ipairs({'a', 'b', nil, 'd'}) do io.write(i, v, ' ') end print()", "1a 2b \n"),
        ("local p = setmetatable({}, {__index = function(t, i) if i <= 3 then return i * 2 end end}) for i, v in ipairs(p) do io.write(i, ':', v, ' ') end print()", "1:2 2:4 3:6 \n"),
        ("local n = 0 for k, v in next, {1, 2, 3} do n = n + v end print(n)", "6\n"),
        ("local t = {} t[true] = 'b' t[print] = 'f' t[t] = 't' print(t[true], t[print], t[t], t[false])", "b\tf\tt\tnil\n"),
    ]);
}

#[test]
fn table_library() {
    check_outputs(&[
        ("local t = {1, 2, 3} table.insert(t, 4) table.insert(t, 1, 0) table.insert(t, 3, 'm') print(table.concat(t, ','), #t)", "0,1,m,2,3,4\t6\n"),
        ("local t = {1, 2, 3} print(table.remove(t), table.remove(t, 1), table.remove(t), table.remove(t), #t)", "3\t1\t2\tnil\t0\n"),
        ("local t = {'a', 'b', 'c', 'd'} print(table.remove(t, 2), table.concat(t), table.remove(t, #t + 1), #t)", "b\tacd\tnil\t3\n"),
        ("print(pcall(table.insert, {1, 2}, 5, 'x'))", "false\tbad argument #2 to 'insert' (position out of bounds)\n"),
        ("print(pcall(table.insert, {1, 2}))", "false\twrong number of arguments to 'insert'\n"),
        ("print(pcall(table.insert, nil, 1))", "false\tbad argument #1 to 'insert' (table expected, got nil)\n"),
        ("print(pcall(table.remove, {1, 2, 3}, 7))", "false\tbad argument #1 to 'remove' (position out of bounds)\n"),
        ("print(table.concat({}), table.concat({1, 2, 3}), table.concat({1, 2, 3}, '-'), table.concat({1, 2, 3}, ',', 2), table.concat({1, 2, 3}, ',', 2, 3), table.concat({'a', 1.5, 2}, ' '))", "\t123\t1-2-3\t2,3\t2,3\ta 1.5 2\n"),
        ("print(pcall(table.concat, {1, {}, 3}))", "false\tinvalid value (at index 2) in table for 'concat'\n"),
        ("local t = {3, 1, 2} table.sort(t) print(table.concat(t, ','))", "1,2,3\n"),
        ("local t = {3, 1, 2, 5, 4} table.sort(t, function(a, b) return a > b end) print(table.concat(t, ','))", "5,4,3,2,1\n"),
        ("local t = {'banana', 'apple', 'Cherry'} table.sort(t) print(table.concat(t, ','))", "Cherry,apple,banana\n"),
        ("local t = {} for i = 1, 100 do t[i] = (i * 37) % 101 end table.sort(t) local ok = true for i = 2, 100 do if t[i - 1] > t[i] then ok = false end end print(ok, t[1], t[100])", "true\t1\t100\n"),
        ("print(pcall(table.sort, {1, 'a', 2}))", "false\tattempt to compare string with number\n"),
        ("local t = {{k = 2}, {k = 1}, {k = 3}} table.sort(t, function(a, b) return a.k < b.k end) print(t[1].k, t[2].k, t[3].k)", "1\t2\t3\n"),
        ("local t = table.pack(table.unpack({1, 2, 3})) print(t.n, #t)", "3\t3\n"),
        ("print(table.unpack({1, 2, 3}, -1, 1))", "nil\tnil\t1\n"),
        ("local t = table.move({1, 2, 3}, 1, 3, 2) print(table.concat(t, ','))", "1,1,2,3\n"),
        ("local t = table.move({1, 2, 3}, 2, 3, 1) print(table.concat(t, ','))", "2,3,3\n"),
        ("local t = setmetatable({}, {__newindex = function(t, k, v) rawset(t, k, v * 2) end}) table.insert(t, 5) print(t[1])", "10\n"),
        ("local t = setmetatable({1, 2}, {__newindex = function() error('immutable') end}) print(pcall(table.insert, t, 3))", "false\tinput:1: immutable\n"),
        ("print(type(table.unpack), type(table.pack), type(table.move), type(string.pack), type(coroutine.create), type(os.time()), type(os.clock()))", "function\tfunction\tfunction\tfunction\tfunction\tnumber\tnumber\n"),
    ]);
}
