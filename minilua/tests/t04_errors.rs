//! Run-time error messages, classes, pcall/error/assert.
mod common;
use common::*;
use minilua::ErrClass::*;

#[test]
fn arithmetic_errors_with_variable_info() {
    check_errors(&[
        ("local x\nlocal y = x + 1", Arith, "input:2: attempt to perform arithmetic on a nil value (local 'x')"),
        ("V31 = nil\nlocal y = 1 + V31", Arith, "input:2: attempt to perform arithmetic on a nil value (global 'V31')"),
        ("local t = {}\nlocal y = t.y * 2", Arith, "input:2: attempt to perform arithmetic on a nil value (field 'y')"),
        ("local z\nlocal function f() return z - 1 end\nf()", Arith, "input:2: attempt to perform arithmetic on a nil value (upvalue 'z')"),
        ("local t = {}\nlocal y = -t", Arith, "input:2: attempt to perform arithmetic on a table value (local 't')"),
        ("local s = 'abc'\nlocal y = s + 1", Arith, "input:2: attempt to perform arithmetic on a string value (local 's')"),
        ("local y = 'abc' + 1", Arith, "input:1: attempt to perform arithmetic on a string value"),
        ("local y = 1 + true", Arith, "input:1: attempt to perform arithmetic on a boolean value"),
        ("local y = print / 2", Arith, "input:1: attempt to perform arithmetic on a function value (global 'print')"),
        ("local function f() end\nlocal y = f() + 1", Arith, "input:2: attempt to perform arithmetic on a nil value"),
        ("local a, b = 1, nil\nlocal y = a + b", Arith, "input:2: attempt to perform arithmetic on a nil value (local 'b')"),
        ("local a, b = nil, nil\nlocal y = a + b", Arith, "input:2: attempt to perform arithmetic on a nil value (local 'a')"),
        ("local a, b = {}, nil\nlocal y = a + b", Arith, "input:2: attempt to perform arithmetic on a table value (local 'a')"),
        ("local t = {}\nlocal i = 1\nlocal y = t[i] + 1", Arith, "input:3: attempt to perform arithmetic on a nil value (field '?')"),
        ("local y = 1 // 0", Arith, "input:1: attempt to perform 'n//0'"),
        ("local y = 1 % 0", Arith, "input:1: attempt to perform 'n%0'"),
        ("local x = 1.5\nlocal y = x | 1", Arith, "input:2: number (local 'x') has no integer representation"),
        ("local x = {}\nlocal y = x | 1", Arith, "input:2: attempt to perform bitwise operation on a table value (local 'x')"),
        ("local y = 'a' | 1", Arith, "input:1: attempt to perform bitwise operation on a string value"),
        ("local x\nlocal y = #x", Arith, "input:2: attempt to get length of a nil value (local 'x')"),
        ("local y = 2^53 | 0\nlocal z = 2^64 | 0", Arith, "input:2: number has no integer representation"),
    ]);
}

#[test]
fn call_index_concat_compare_errors() {
    check_errors(&[
        ("foo()", Call, "input:1: attempt to call a nil value (global 'foo')"),
        ("local f\nf()", Call, "input:2: attempt to call a nil value (local 'f')"),
        ("local t = {}\nt.m()", Call, "input:2: attempt to call a nil value (field 'm')"),
        ("local t = {}\nt:m()", Call, "input:2: attempt to call a nil value (method 'm')"),
        ("local u\nlocal function g() u() end\ng()", Call, "input:2: attempt to call a nil value (upvalue 'u')"),
        ("local t = {}\nt.a.b.c()", Index, "input:2: attempt to index a nil value (field 'a')"),
        ("(1)()", Call, "input:1: attempt to call a number value"),
        ("local s = 'x'\ns()", Call, "input:2: attempt to call a string value (local 's')"),
        ("local x\nprint(x.y)", Index, "input:2: attempt to index a nil value (local 'x')"),
        ("print(undefinedvar.y)", Index, "input:1: attempt to index a nil value (global 'undefinedvar')"),
        ("local x\nx.y = 1", Index, "input:2: attempt to index a nil value (local 'x')"),
        ("local t = {}\nt.a.b = 1", Index, "input:2: attempt to index a nil value (field 'a')"),
        ("local n = 5\nprint(n.x)", Index, "input:2: attempt to index a number value (local 'n')"),
        ("local function f() return nil end\nprint(f().x)", Index, "input:2: attempt to index a nil value"),
        ("local x\nx:method()", Index, "input:2: attempt to index a nil value (local 'x')"),
        ("local s = 'a' .. nil", Concat, "input:1: attempt to concatenate a nil value"),
        ("local x\nlocal s = 'a' .. x", Concat, "input:2: attempt to concatenate a nil value (local 'x')"),
        ("local x\nlocal s = x .. 'a'", Concat, "input:2: attempt to concatenate a nil value (local 'x')"),
        ("local s = 'a' .. {} .. 'b'", Concat, "input:1: attempt to concatenate a table value"),
        ("gg = true\nlocal s = gg .. 'x'", Concat, "input:2: attempt to concatenate a boolean value (global 'gg')"),
        ("local y = {} < {}", Compare, "input:1: attempt to compare two table values"),
        ("local y = 1 < 'x'", Compare, "input:1: attempt to compare number with string"),
        ("local y = nil > 1", Compare, "input:1: attempt to compare number with nil"),
        ("local y = 1 <= nil", Compare, "input:1: attempt to compare number with nil"),
        ("local y = 'a' >= 1", Compare, "input:1: attempt to compare number with string"),
        ("local y = {} <= 1", Compare, "input:1: attempt to compare table with number"),
        ("local y = print < print", Compare, "input:1: attempt to compare two function values"),
        ("local t = {}\nt[nil] = 1", TableIndex, "input:2: table index is nil"),
        ("local t = {}\nt[0/0] = 1", TableIndex, "input:2: table index is NaN"),
        ("local t = {[nil] = 1}", TableIndex, "input:1: table index is nil"),
        ("rawset({}, nil, 1)", TableIndex, "table index is nil"),
    ]);
}

#[test]
fn reading_nil_and_nan_keys_is_fine() {
    check_outputs(&[("local t = {} print(t[nil], t[0/0], rawget(t, nil))", "nil\tnil\tnil\n")]);
}

#[test]
fn error_function_positions_and_values() {
    check_errors(&[
        ("error('boom')", ErrorCall, "input:1: boom"),
        ("\n\nerror('boom')", ErrorCall, "input:3: boom"),
        ("error('boom', 0)", ErrorCall, "boom"),
        ("local function f() error('deep', 2) end\nf()", ErrorCall, "input:2: deep"),
        ("local function f() error('lvl1', 1) end\n\nf()", ErrorCall, "input:1: lvl1"),
        ("error({code = 1})", ErrorCall, "(error object is a table value)"),
        ("error(setmetatable({}, {__tostring = function() return 'custom err' end}))", ErrorCall, "custom err"),
        ("error(42)", ErrorCall, "42"),
        ("error()", ErrorCall, "(error object is a nil value)"),
        ("error(true)", ErrorCall, "(error object is a boolean value)"),
        ("error(\n'multi')", ErrorCall, "input:1: multi"),
    ]);
    let (_, _, line) = err("\n\nerror('x')");
    assert_eq!(line, 3);
}

#[test]
fn assert_behaviour() {
    check_errors(&[
        ("assert(false, 'Assert failed!')", Assert, "Assert failed!"),
        ("assert(nil, 'msg')", Assert, "msg"),
        ("assert(1 == 2)", Assert, "input:1: assertion failed!"),
        ("assert(false, {1})", Assert, "(error object is a table value)"),
        ("assert(false, 42)", Assert, "42"),
        ("assert()", Other, "input:1: bad argument #1 to 'assert' (value expected)"),
        ("local function crash(msg) return function() assert(false, '!!CRASH!!: ' .. (msg or '')) end end\ncrash('unreachable')()", Assert, "!!CRASH!!: unreachable"),
    ]);
    check_outputs(&[
        ("print(assert(1, 2, 3))", "1\t2\t3\n"),
        ("print(assert('x'), assert(0), select('#', assert(true, nil)))", "x\t0\t2\n"),
        ("print(pcall(assert, false))", "false\tassertion failed!\n"),
        ("print(pcall(assert, false, 'X', 1))", "false\tX\n"),
        ("local t = {} print(select(2, pcall(assert, false, t)) == t)", "true\n"),
    ]);
    let (_, _, line) = err("\n\n\nassert(false, 'x')");
    assert_eq!(line, 4);
}

#[test]
fn pcall_and_xpcall() {
    check_outputs(&[
        ("print(pcall(function() return 1, 2 end))", "true\t1\t2\n"),
        ("print(pcall(error, 'msg'))", "false\tmsg\n"),
        ("print(pcall(error))", "false\tnil\n"),
        ("print(pcall(function() error('msg') end))", "false\tinput:1: msg\n"),
        ("print(pcall(function() error('msg', 0) end))", "false\tmsg\n"),
        ("local ok, e = pcall(error, {code = 7}) print(ok, type(e), e.code)", "false\ttable\t7\n"),
        ("local ok, e = pcall(function() local x = nil + 1 end) print(ok, e)", "false\tinput:1: attempt to perform arithmetic on a nil value\n"),
        ("print(pcall(pcall, error, 'x'))", "true\tfalse\tx\n"),
        ("print(pcall(nil))", "false\tattempt to call a nil value\n"),
        ("print(select('#', pcall(function() end)))", "1\n"),
        ("local ok, e = pcall(function() error() end) print(ok, e)", "false\tnil\n"),
        ("print(xpcall(function() error('E') end, function(m) return 'handled: ' .. m end))", "false\thandled: input:1: E\n"),
        ("print(xpcall(function(a, b) return a + b end, print, 1, 2))", "true\t3\n"),
        ("local ok = pcall(function() local t = nil; t.x = 1 end) print(ok) print('still running')", "false\nstill running\n"),
        ("local function f() error('inner') end local ok, e = pcall(function() local ok2, e2 = pcall(f) error('outer:' .. tostring(e2), 0) end) print(e)", "outer:input:1: inner\n"),
        ("local depth = 0 local function r() depth = depth + 1 r() end local ok, e = pcall(r) print(ok, e, depth > 100)", "false\tinput:1: stack overflow\ttrue\n"),
        ("print(pcall(string.rep))", "false\tbad argument #1 to 'rep' (string expected, got no value)\n"),
        ("print(pcall(('x').rep, 'x', {}))", "false\tbad argument #2 to 'rep' (number expected, got table)\n"),
        ("print(pcall(setmetatable, {}, 1))", "false\tbad argument #2 to 'setmetatable' (nil or table expected)\n"),
        ("print(pcall(ipairs))", "false\tbad argument #1 to 'ipairs' (value expected)\n"),
        ("print(pcall(string.char, 256))", "false\tbad argument #1 to 'char' (value out of range)\n"),
        ("print(pcall(string.sub))", "false\tbad argument #1 to 'sub' (string expected, got no value)\n"),
        ("print(pcall(string.sub, 'x', 1.5))", "false\tbad argument #2 to 'sub' (number has no integer representation)\n"),
        ("for k in pairs(nil) do end", ""),
    ][..23]);
    check_errors(&[
        ("for k in pairs(nil) do end", Other, "input:1: bad argument #1 to 'for iterator' (table expected, got nil)"),
        ("string.rep()", Other, "input:1: bad argument #1 to 'rep' (string expected, got no value)"),
        ("local t = setmetatable({}, {__index = function(t, k) error('idx ' .. k) end})\nlocal v = t.foo", ErrorCall, "input:1: idx foo"),
    ]);
}
