//! Library API: run options, outcomes, events, free_names, threads, the Sylt preamble.
mod common;
use common::*;
use minilua::*;

const PREAMBLE: &str = "/repo/sylt-compiler/src/preamble.lua";

fn preamble() -> Option<String> {
    std::fs::read_to_string(PREAMBLE).ok()
}

#[test]
fn preamble_alone_runs_to_done() {
    let Some(src) = preamble() else { return };
    let r = run_source(&src, &opts()).expect("preamble loads");
    assert_eq!(r.outcome, Outcome::Done);
    assert_eq!(r.output, "");
    assert!(r.steps > 0 && r.steps < 10_000, "steps = {}", r.steps);
}

#[test]
fn preamble_data_types_behave() {
    let Some(pre) = preamble() else { return };
    let prog = r#"
local l = __LIST({1, 2, 3})
local u = __TUPLE({1, "a"})
print(l, u, __TUPLE({1}), __NIL, __VARIANT({"Just", 3}))
print(__LIST({1, 2}) == __LIST({1, 2}), __LIST({1}) == __LIST({2}), __TUPLE({1, 2}) < __TUPLE({1, 3}), __TUPLE({1, 2}) <= __TUPLE({1, 2}))
print(__TUPLE({1, 2}) + __TUPLE({3, 4}), -__TUPLE({1, 2}), __TUPLE({4, 6}) / 2)
print(__ADD("a", "b"), __ADD(1, 2), __INDEX(l, 0), __INDEX(__BLOB({a = 5}), "a"))
print(split("a b  c"), as_chars("hi"), list_map(l, function(x) return x * 2 end), list_fold(l, 0, function(x, a) return x + a end))
local d = dict_new() dict_update(d, "k", 1) dict_update(d, 2, "v") print(d, dict_get(d, "k"), dict_get(d, "zz"))
local s = set_from_list(__LIST({1, 2, 2})) print(s, set_contains(s, 2), set_contains(s, 3), xx_len(s))
print(pcall(__ASSIGN_INDEX, u, 0, 1))
print(pcall(__INDEX, l, 7))
print(pcall(function() u[5] = 1 end))
print(as_int(3.7), div(7, 2), div(1, 0), rem(-7, 3), sign(-2), as_str(1.5), atan2, pow)
list_push(l, 4) list_prepend(l, 0) print(l, list_pop(l), l, list_get(l, 0), list_get(l, 10))
"#;
    let o = out(&format!("{}\n{}", pre, prog));
    let want = "[1, 2, 3]\t(1, a)\t(1,)\tnil\tJust 3\n\
true\tfalse\ttrue\ttrue\n\
(4, 6)\t(-1, -2)\t(2.0, 3.0)\n\
ab\t3\t1\t5\n\
[a, b, c]\t[104, 105]\t[2, 4, 6]\t6\n\
dict {k: 1, 2: v}\tJust 1\tNone nil\n\
set {1, 2}\ttrue\tfalse\t2\n\
false\tCannot assign to tuple!\n\
false\tTuple/list index out of range \"7\"\n\
false\tTuples are immutable\n\
3.0\t3\t0\t2\t-1\t1.5\tfunction: 0x";
    assert!(o.starts_with(want), "got:\n{}", o);
    assert!(o.ends_with("nil\n[0, 1, 2, 3]\tJust 4\t[0, 1, 2, 3]\tJust 0\tNone nil\n"), "got:\n{}", o);
}

#[test]
fn sylt_style_generated_code() {
    let Some(pre) = preamble() else { return };
    let prog = r#"
local function V12(V3, V4)
  local V20 = V3
  if (V20 < 2) then
    V31 = 1
  else
    V31 = 2
  end
  local V40 = 0
  while true do
    ::L44::
    V40 = V40 + 1
    if (V40 < 3) then
    else
      break
    end
    goto L44
  end
  return __ADD(V20, V31), V40
end
V7 = print
local V99, V100 = V12(1, 2)
V7(V99, V100)
assert((V99 == 2), "Assert failed!")
__CRASH("Reached unreachable code on line 3")()
"#;
    let src = format!("{}\n{}", pre, prog);
    let r = run_source(&src, &RunOptions { record_events: true, ..opts() }).unwrap();
    assert_eq!(r.output, "2\t3\n");
    match &r.outcome {
        Outcome::Error { class, message, .. } => {
            assert_eq!(*class, ErrClass::Assert);
            assert_eq!(message, "!!CRASH!!: Reached unreachable code on line 3");
        }
        o => panic!("unexpected {:?}", o),
    }
    // events: V31 written by activation of V12, V7 written and read by the main chunk
    let writes: Vec<_> = r.events.iter().filter_map(|e| match e { Event::GlobalWrite { act, name } => Some((*act, name.clone())), _ => None }).collect();
    assert_eq!(writes.iter().filter(|(_, n)| n == "V31").count(), 1);
    assert!(writes.iter().any(|(a, n)| n == "V7" && *a == 0));
    let v31_act = writes.iter().find(|(_, n)| n == "V31").unwrap().0;
    assert!(v31_act > 0);
    assert!(r.events.iter().any(|e| matches!(e, Event::Enter { act, parent_act: 0, .. } if *act == v31_act)));
    assert!(r.events.iter().any(|e| matches!(e, Event::GlobalRead { act, name } if *act == v31_act && name == "V31")));
    assert!(r.events.iter().any(|e| matches!(e, Event::GlobalRead { act: 0, name } if name == "V7")));
    // no prelude global is logged
    assert!(r.events.iter().all(|e| !matches!(e, Event::GlobalWrite { name, .. } | Event::GlobalRead { name, .. } if !name.starts_with('V'))));
}

#[test]
fn event_log_structure() {
    let src = "local function f(n)\n  if n > 0 then return 1 + f(n - 1) end\n  return 0\nend\nV1 = f(2)\nlocal g = function() return V1 end\nV2 = g()\nVx = 1 V = 2 V1a = 3\n";
    let r = run_source(src, &RunOptions { record_events: true, ..opts() }).unwrap();
    assert_eq!(r.outcome, Outcome::Done);
    use Event::*;
    let want = vec![
        Closure { act: 0, func_line: 1 },
        Enter { act: 1, parent_act: 0, func_line: 1 },
        Enter { act: 2, parent_act: 1, func_line: 1 },
        Enter { act: 3, parent_act: 2, func_line: 1 },
        Exit { act: 3 },
        Exit { act: 2 },
        Exit { act: 1 },
        GlobalWrite { act: 0, name: "V1".into() },
        Closure { act: 0, func_line: 6 },
        Enter { act: 4, parent_act: 0, func_line: 6 },
        GlobalRead { act: 4, name: "V1".into() },
        Exit { act: 4 },
        GlobalWrite { act: 0, name: "V2".into() },
    ];
    assert_eq!(r.events, want);
    // Exit is also recorded when unwinding by error
    let r = run_source("local function f() error('x') end\npcall(f)\n", &RunOptions { record_events: true, ..opts() }).unwrap();
    assert_eq!(r.events, vec![Closure { act: 0, func_line: 1 }, Enter { act: 1, parent_act: 0, func_line: 1 }, Exit { act: 1 }]);
    // nothing recorded unless asked
    assert!(run_source(src, &opts()).unwrap().events.is_empty());
}

#[test]
fn free_names_lists_global_accesses() {
    let c = load("local a = 1\nx = a\nprint(y)\nlocal function f(p)\n  z = p + w\n  local function g() return q end\nend\nfunction h() end\nt.u.v = 1\n").unwrap();
    let got = free_names(&c);
    let want: Vec<(String, u32, bool, u32)> = vec![
        ("x".into(), 2, true, 0), ("print".into(), 3, false, 0), ("y".into(), 3, false, 0),
        ("z".into(), 5, true, 1), ("w".into(), 5, false, 1), ("q".into(), 6, false, 2),
        ("h".into(), 8, true, 0), ("t".into(), 9, false, 0),
    ];
    assert_eq!(got, want);
}

#[test]
fn step_limit_and_stack_overflow() {
    let r = run_source("while true do end", &RunOptions { max_steps: 10_000, ..opts() }).unwrap();
    assert_eq!(r.outcome, Outcome::StepLimit);
    assert!(r.steps >= 10_000);
    let r = run_source("print('before') local i = 0 repeat i = i + 1 until false", &RunOptions { max_steps: 5_000, ..opts() }).unwrap();
    assert_eq!((r.outcome, r.output.as_str()), (Outcome::StepLimit, "before\n"));
    // the step limit cannot be caught by pcall
    let r = run_source("print(pcall(function() while true do end end)) print('after')", &RunOptions { max_steps: 5_000, ..opts() }).unwrap();
    assert_eq!((r.outcome, r.output.as_str()), (Outcome::StepLimit, ""));
    let r = run_source("local function f() return 1 + f() end\nf()", &opts()).unwrap();
    match r.outcome {
        Outcome::Error { class, message, .. } => {
            assert_eq!(class, ErrClass::StackOverflow);
            assert_eq!(message, "input:1: stack overflow");
        }
        o => panic!("{:?}", o),
    }
    // configurable depth; proper tail calls do not consume depth
    let deep = "local function f(n) if n == 0 then return 0 end return 1 + f(n - 1) end print(f(150))";
    assert_eq!(run_source(deep, &RunOptions { max_call_depth: 200, ..opts() }).unwrap().output, "150\n");
    assert!(matches!(run_source(deep, &RunOptions { max_call_depth: 100, ..opts() }).unwrap().outcome, Outcome::Error { class: ErrClass::StackOverflow, .. }));
    assert_eq!(out("local function loop(n) if n == 0 then return 'done' end return loop(n - 1) end print(loop(100000))"), "done\n");
    assert_eq!(out("local function f(n) if n == 0 then return 0 end return 1 + f(n - 1) end print(f(6000))"), "6000\n");
    // infinite recursion through a metamethod is also caught
    let r = run_source("local t = setmetatable({}, {__index = function(t, k) return t[k] end}) print(pcall(function() return t.x end))", &opts()).unwrap();
    assert_eq!(r.outcome, Outcome::Done);
    assert!(r.output.starts_with("false\t") && r.output.contains("stack overflow"), "{}", r.output);
}

#[test]
fn unsupported_features_are_reported() {
    for (src, what) in [
        ("coroutine.wrap(function() end)", "coroutine.wrap"),
        ("local co = coroutine.create(print)", "coroutine.create"),
        ("string.pack('i4', 1)", "string.pack"),
        ("os.execute('ls')", "os.execute"),
        ("io.read()", "io.read"),
        ("load('return 1')", "load"),
        ("os.exit(0)", "os.exit"),
        ("print(pcall(os.getenv, 'HOME'))", "os.getenv"),
        ("debug.traceback()", "debug.traceback"),
        ("string.format('%a', 1.0)", "%a"),
    ] {
        match run_source(src, &opts()).unwrap().outcome {
            Outcome::Unsupported(m) => assert!(m.contains(what), "{} -> {}", src, m),
            o => panic!("{} -> {:?}", src, o),
        }
    }
}

#[test]
fn require_output_and_threads() {
    let r = run_source("print(require('foo'), require 'bar.baz') io.write('a', 1, 2.5, '\\n') io.stdout:write('x'):write('y\\n')", &opts()).unwrap();
    assert_eq!(r.outcome, Outcome::Done);
    assert_eq!(r.requires, vec!["foo".to_string(), "bar.baz".to_string()]);
    assert_eq!(r.output, "true\ttrue\na12.5\nxy\n");
    // a Chunk can be shared between threads and run concurrently
    let chunk = std::sync::Arc::new(load("local s = 0 for i = 1, 1000 do s = s + i end print(s)").unwrap());
    let hs: Vec<_> = (0..8).map(|_| { let c = chunk.clone(); std::thread::spawn(move || run(&c, &RunOptions::default()).output) }).collect();
    for h in hs {
        assert_eq!(h.join().unwrap(), "500500\n");
    }
    // load() from many threads
    let hs: Vec<_> = (0..8).map(|i| std::thread::spawn(move || load(&format!("return {}", i)).is_ok())).collect();
    assert!(hs.into_iter().all(|h| h.join().unwrap()));
}
