//! Metamethod dispatch (manual §2.4).
mod common;
use common::*;

const VEC: &str = r#"
local V = {}
V.__index = V
local function new(x) return setmetatable({x = x}, V) end
V.__add = function(a, b) return new((type(a) == 'table' and a.x or a) + (type(b) == 'table' and b.x or b)) end
V.__sub = function(a, b) return new(a.x - b.x) end
V.__mul = function(a, b) return new(a.x * b.x) end
V.__div = function(a, b) return new(a.x / b.x) end
V.__mod = function(a, b) return new(a.x % b.x) end
V.__pow = function(a, b) return new(a.x ^ b.x) end
V.__idiv = function(a, b) return new(a.x // b.x) end
V.__unm = function(a) return new(-a.x) end
V.__band = function(a, b) return new(a.x & b.x) end
V.__bor = function(a, b) return new(a.x | b.x) end
V.__bxor = function(a, b) return new(a.x ~ b.x) end
V.__shl = function(a, b) return new(a.x << b.x) end
V.__shr = function(a, b) return new(a.x >> b.x) end
V.__bnot = function(a) return new(~a.x) end
V.__concat = function(a, b) return 'V(' .. (type(a) == 'table' and a.x or a) .. ',' .. (type(b) == 'table' and b.x or b) .. ')' end
V.__len = function(a) return a.x * 100 end
V.__eq = function(a, b) return a.x == b.x end
V.__lt = function(a, b) return a.x < b.x end
V.__le = function(a, b) return a.x <= b.x end
V.__tostring = function(a) return 'V<' .. a.x .. '>' end
V.__call = function(self, y) return self.x + y end
"#;

fn v(body: &str) -> String {
    out(&format!("{}\n{}", VEC, body))
}

#[test]
fn arithmetic_metamethods() {
    assert_eq!(v("print((new(1) + new(2)).x, (new(1) + 5).x, (5 + new(1)).x)"), "3\t6\t6\n");
    assert_eq!(v("print((new(7) - new(2)).x, (new(7) * new(2)).x, (new(7) / new(2)).x)"), "5\t14\t3.5\n");
    assert_eq!(v("print((new(7) % new(4)).x, (new(2) ^ new(3)).x, (new(7) // new(2)).x, (-new(7)).x)"), "3\t8.0\t3\t-7\n");
    assert_eq!(v("print((new(6) & new(3)).x, (new(6) | new(3)).x, (new(6) ~ new(3)).x, (new(1) << new(4)).x, (new(16) >> new(2)).x, (~new(0)).x)"), "2\t7\t5\t16\t4\t-1\n");
}

#[test]
fn concat_len_call_tostring() {
    assert_eq!(v("print(new(1) .. new(2), new(1) .. 'x', 'x' .. new(2), 1 .. new(2))"), "V(1,2)\tV(1,x)\tV(x,2)\tV(1,2)\n");
    // concatenation is right associative: 'a' .. ('b' .. V)
    assert_eq!(v("print('a' .. 'b' .. new(3), new(3) .. 'a' .. 'b')"), "aV(b,3)\tV(3,ab)\n");
    assert_eq!(v("print(#new(3), new(10)(5), tostring(new(4)))"), "300\t15\tV<4>\n");
    assert_eq!(v("print(new(4), new(5))"), "V<4>\tV<5>\n");
}

#[test]
fn comparison_metamethods() {
    assert_eq!(v("print(new(1) == new(1), new(1) ~= new(1), new(1) == new(2), new(1) < new(2), new(2) <= new(2), new(3) > new(2), new(1) >= new(2))"),
        "true\tfalse\tfalse\ttrue\ttrue\ttrue\tfalse\n");
    // __eq is not consulted when operands are the same object, or when one is not a table
    assert_eq!(v("local a = new(1) V.__eq = function() return false end print(a == a, a == 1, 1 == a, a ~= 1)"), "true\tfalse\tfalse\ttrue\n");
    // result of __eq / __lt is converted to boolean
    assert_eq!(v("V.__eq = function() return 1 end V.__lt = function() return nil end print(new(1) == new(2), new(1) < new(2))"), "true\tfalse\n");
}

#[test]
fn eq_only_between_tables_and_second_operand_handler() {
    check_outputs(&[
        ("local mt = {__eq = function() return true end} local a = setmetatable({}, mt) local b = {} print(a == b, b == a, a == {}, a == 'x')", "true\ttrue\ttrue\tfalse\n"),
        ("local calls = 0 local mt = {__eq = function() calls = calls + 1 return true end} local a, b = setmetatable({}, mt), setmetatable({}, mt) local _ = a == b, a ~= b print(calls)", "2\n"),
        ("local t = {} print(t == t, {} == {}, rawequal(t, t), rawequal({}, {}))", "true\tfalse\ttrue\tfalse\n"),
    ]);
}

#[test]
fn le_falls_back_to_not_lt() {
    check_outputs(&[
        ("local mt = {__lt = function(a, b) return a.v < b.v end} local function n(v) return setmetatable({v = v}, mt) end print(n(1) <= n(2), n(2) <= n(1), n(1) <= n(1), n(2) >= n(1))", "true\tfalse\ttrue\ttrue\n"),
        ("local log = {} local mt = {__lt = function(a, b) log[#log + 1] = a.v .. '<' .. b.v return a.v < b.v end} local function n(v) return setmetatable({v = v}, mt) end local _ = n(1) <= n(2) local _ = n(1) > n(2) print(table.concat(log, ' '))", "2<1 2<1\n"),
        ("local mt = {__lt = function(a, b) return true end} print(setmetatable({}, mt) < 1, 1 < setmetatable({}, mt))", "true\ttrue\n"),
    ]);
}

#[test]
fn index_and_newindex() {
    check_outputs(&[
        ("local base = {a = 1} local t = setmetatable({}, {__index = base}) print(t.a, t.b, rawget(t, 'a'))", "1\tnil\tnil\n"),
        ("local t = setmetatable({}, {__index = function(t, k) return k .. '!' end}) print(t.x, t[1], rawget(t, 'x'))", "x!\t1!\tnil\n"),
        ("local a = {x = 1} local b = setmetatable({}, {__index = a}) local c = setmetatable({}, {__index = b}) print(c.x)", "1\n"),
        ("local log = {} local t = setmetatable({}, {__newindex = function(t, k, v) rawset(t, k, v * 2) end}) t.a = 1 t.a = 5 print(t.a)", "5\n"),
        ("local store = {} local t = setmetatable({}, {__newindex = store}) t.a = 1 print(rawget(t, 'a'), store.a)", "nil\t1\n"),
        ("local t = setmetatable({a = 1}, {__newindex = function() error('ro') end}) t.a = 2 print(t.a, pcall(function() t.b = 1 end))", "2\tfalse\tinput:1: ro\n"),
        ("local t = setmetatable({}, {__index = function(t, k) return nil end}) print(t.x)", "nil\n"),
        ("print(('abc'):len(), ('abc'):upper(), ('x'):rep(3), #('abc'):sub(2))", "3\tABC\txxx\t2\n"),
        ("local s = 'hello' print(s:sub(2, 3), s:byte(1), s.len, ('x').nope)", "el\t104\tfunction: builtin: string.len\tnil\n"),
        ("local mt = {} mt.__index = mt function mt:get() return self.v end local o = setmetatable({v = 9}, mt) print(o:get(), o.get(o))", "9\t9\n"),
        ("local t = setmetatable({}, {__call = function(self, a, b) return a + b, self end}) local s, me = t(1, 2) print(s, me == t)", "3\ttrue\n"),
        ("print(getmetatable('x').__index == string, getmetatable({}), getmetatable(1))", "true\tnil\tnil\n"),
        ("local t = setmetatable({}, {__metatable = 'locked'}) print(getmetatable(t), pcall(setmetatable, t, {}))", "locked\tfalse\tcannot change a protected metatable\n"),
        ("local t = {} print(setmetatable(t, nil) == t, pcall(setmetatable, 1, {}))", "true\tfalse\tbad argument #1 to 'setmetatable' (table expected, got number)\n"),
    ]);
}

#[test]
fn tostring_and_pairs_metamethods() {
    check_outputs(&[
        ("local t = setmetatable({}, {__tostring = function() return 'custom' end}) print(t, tostring(t), 'x' .. tostring(t))", "custom\tcustom\txcustom\n"),
        ("local t = setmetatable({}, {__tostring = function() return 42 end}) print(pcall(tostring, t))", "true\t42\n"),
        ("local t = setmetatable({}, {__tostring = function() return {} end}) print(pcall(tostring, t))", "false\t'__tostring' must return a string\n"),
        ("local t = setmetatable({}, {__pairs = function(t) return function(_, k) if not k then return 1, 'one' end end, t, nil end}) for k, v in pairs(t) do print(k, v) end", "1\tone\n"),
        ("local t = setmetatable({}, {__name = 'MyType'}) print((tostring(t):gsub('0x%x+', 'ADDR')))", "MyType: ADDR\n"),
        ("print((tostring({}):gsub('0x%x+', 'ADDR')), (tostring(print):gsub('0x%x+', 'ADDR')))", "table: ADDR\tfunction: builtin: print\n"),
        ("local f = function() end print((tostring(f):gsub('0x%x+', 'ADDR')), tostring({}) ~= tostring({}))", "function: ADDR\ttrue\n"),
        ("local t = setmetatable({1, 2, 3}, {__len = function() return 10 end}) print(#t, rawlen(t))", "10\t3\n"),
        ("local t = setmetatable({}, {__unm = function(a) return 'neg' end, __bnot = function() return 'bnot' end}) print(-t, ~t)", "neg\tbnot\n"),
    ]);
}
