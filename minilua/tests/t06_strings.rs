//! String library, patterns, string.format, lexical forms of strings.
mod common;
use common::*;

#[test]
fn basic_string_functions() {
    check_outputs(&[
        ("print(string.len('abc'), ('abc'):len(), #'abc', string.len(''))", "3\t3\t3\t0\n"),
        ("print(string.sub('hello', 2, 4), ('hello'):sub(2), ('hello'):sub(-3), ('hello'):sub(-3, -2), ('hello'):sub(0), ('hello'):sub(10), ('hello'):sub(2, 1), ('hello'):sub(-100, 2))", "ell\tello\tllo\tll\thello\t\t\the\n"),
        ("print(string.upper('aBc1'), string.lower('AbC1'), string.reverse('abc'), string.reverse(''))", "ABC1\tabc1\tcba\t\n"),
        ("print(string.rep('ab', 3), string.rep('ab', 3, ','), string.rep('x', 0), string.rep('x', -1), string.rep('', 5))", "ababab\tab,ab,ab\t\t\t\n"),
        ("print(string.byte('A'), string.byte('abc', 2), string.byte('abc', -1), string.byte('abc', 1, 3))", "65\t98\t99\t97\t98\t99\n"),
        ("print(string.byte('abc', 10), string.byte(''), select('#', string.byte('abc', 10)))", "nil\tnil\t0\n"),
        ("print(string.char(72, 105), string.char(), #string.char(0, 255))", "Hi\t\t2\n"),
    ]);
}

#[test]
fn format_and_misc() {
    check_outputs(&[
        ("print(#string.format('%5d', 42), string.format('%-5d|', 42), string.format('%05d', 42), string.format('%+d', 42), string.format('% d', 42))", "5\t42   |\t00042\t+42\t 42\n"),
        ("print(string.format('%d %s %g %f %x', 42, 'hi', 0.5, 1.5, 255))", "42 hi 0.5 1.500000 ff\n"),
        ("print(string.format('%5.2f|%.3f|%10.4f|%-8.1f|', 3.14159, 2/3, math.pi, 2.25))", " 3.14|0.667|    3.1416|2.2     |\n"),
        ("print(string.format('%g %g %g %g %g %g', 100000, 1000000, 1e20, 0.0001, 0.00001, 123456789))", "100000 1e+06 1e+20 0.0001 1e-05 1.23457e+08\n"),
        ("print(string.format('%e %.2e %E', 12345.678, 0.00012, 1))", "1.234568e+04 1.20e-04 1.000000E+00\n"),
        ("print(string.format('%x %X %#x %o %c%c', 255, 255, 255, 8, 72, 105))", "ff FF 0xff 10 Hi\n"),
        ("print(string.format('%s %s %s %s', nil, true, 12, 1.5), string.format('%10s|%-10s|%.2s', 'abc', 'abc', 'abcdef'))", "nil true 12 1.5\t       abc|abc       |ab\n"),
        ("print(string.format('%q', 'he said \"hi\"\\n\\\\ \\0 \\r'))", "\"he said \\\"hi\\\"\\\n\\\\ \\0 \\13\"\n"),
        ("print(string.format('%d', 3.0), pcall(string.format, '%d', 3.5))", "3\tfalse\tbad argument #2 to 'format' (number has no integer representation)\n"),
        ("print(string.format('%%'), string.format('100%%'), string.format('%5s%%', 'a'))", "%\t100%\t    a%\n"),
        ("print(pcall(string.format, '%d'))", "false\tbad argument #2 to 'format' (number expected, got no value)\n"),
        ("print(pcall(string.format, '%y', 1))", "false\tinvalid option '%y' to 'format'\n"),
        ("print(string.format('%s', setmetatable({}, {__tostring = function() return 'obj' end})))", "obj\n"),
        ("print(string.format('%.14g', 0.1), string.format('%.17g', 0.1), string.format('%.0f', 0.5), string.format('%.0f', 1.5), string.format('%5.1f', -0.05))", "0.1\t0.10000000000000001\t0\t2\t -0.1\n"),
        ("print(string.format('%i', 42), string.format('%u', 42), string.format('%.3d', 5), string.format('%g', 1/0), string.format('%f', -1/0))", "42\t42\t005\tinf\t-inf\n"),
        ("print(('%d items'):format(3), ('%s=%s'):format('k', 'v'))", "3 items\tk=v\n"),
    ]);
}

#[test]
fn find_match_gmatch_gsub() {
    check_outputs(&[
        ("print(string.find('hello world', 'o w'))", "5\t7\n"),
        ("print(string.find('hello', 'l+'))", "3\t4\n"),
        ("print(string.find('hello', 'xyz'), string.find('hello', ''), string.find('hello', '', 10))", "nil\t1\tnil\n"),
        ("print(string.find('a.b', '.', 1, true), string.find('a.b', '%.'), string.find('a+b', '+', 1, true))", "2\t2\t2\t2\n"),
        ("print(string.find('hello', 'l', -2), string.find('hello', '(l)(l)'))", "4\t3\t4\tl\tl\n"),
        ("print(string.match('key=val', '(%w+)=(%w+)'))", "key\tval\n"),
        ("print(string.match('hello 123 world', '%d+'), string.match('abc', '%d+'), string.match('  trim  ', '^%s*(.-)%s*$'))", "123\tnil\ttrim\n"),
        ("print(string.match('2024-01-15', '(%d+)-(%d+)-(%d+)'))", "2024\t01\t15\n"),
        ("print(string.match('hello', '()ll()'))", "3\t5\n"),
        ("print(string.match('abc', '^b'), string.match('abc', '^a'), string.match('abc', 'c$'), string.match('abc', 'b$'))", "nil\ta\tc\tnil\n"),
        ("print(string.match('f(a(b)c)d', '%b()'), string.match('THE (quick) fox', '%((%a+)%)'))", "(a(b)c)\tquick\n"),
        ("print(string.match('hello world', '%f[%w]%w+', 2), string.match('x=1, y=2', '(%w+)=(%w+)', 5))", "world\ty\t2\n"),
        ("print(string.match('aaa', 'a-'), string.match('aaa', 'a-$'), string.match('aaab', 'a*b'), string.match('b', 'a?b'))", "\taaa\taaab\tb\n"),
        ("print(string.match('abc123', '[a-c]+'), string.match('abc123', '[^a-c]+'), string.match('a-b', '[a%-]+'), string.match('x]y', '[]]'))", "abc\t123\ta-\t]\n"),
        ("print(string.match('Hello World', '%u%l+'), string.match('a1 b2', '%a%d %a%d'), string.match('tab\\there', '%s'), string.match('a.b', '%p'))", "Hello\ta1 b2\t\t\t.\n"),
        ("print(string.match('0xFF', '%x+'), string.match('abc', '%A'), string.match('a b', '%S+'), string.match('hello', '(h)(e)(l)(l)(o)'))", "0\tnil\ta\th\te\tl\tl\to\n"),
        ("print(string.match('abcabc', '(abc)%1'), string.match('abcabd', '(abc)%1'))", "abc\tnil\n"),
        ("for w in string.gmatch('one two  three', '([^%s]+)') do io.write(w, ';') end print()", "one;two;three;\n"),
        ("for k, v in string.gmatch('a=1, b=2', '(%w+)=(%w+)') do io.write(k, v, ';') end print()", "a1;b2;\n"),
        ("local n = 0 for _ in string.gmatch('abc', '') do n = n + 1 end print(n)", "4\n"),
        ("for w in ('a,b,,c'):gmatch('([^,]*)') do io.write('[', w, ']') end print()", "[a][b][][c]\n"),
        ("print(string.gsub('hello world', 'o', '0'))", "hell0 w0rld\t2\n"),
        ("print(string.gsub('hello', 'l', 'L', 1), string.gsub('hello', '', '-'))", "heLlo\t-h-e-l-l-o-\t6\n"),
        ("print(string.gsub('abc', '%w', '%0%0'), string.gsub('hello world', '(%w+) (%w+)', '%2 %1'))", "aabbcc\tworld hello\t1\n"),
        ("print(string.gsub('abc', '%w', {a = '1', c = false}))", "1bc\t3\n"),
        ("print(string.gsub('abc', '%w', function(c) if c == 'b' then return nil end return c:upper() end))", "AbC\t3\n"),
        ("print(string.gsub('$name is $age', '%$(%w+)', {name = 'Bob', age = 42}))", "Bob is 42\t2\n"),
        ("print(string.gsub('abc', 'b', '%%'), string.gsub('  x  ', '^%s+', ''), string.gsub('abc', '.', {}))", "a%c\tx  \tabc\t3\n"),
        ("print(pcall(string.gsub, 'abc', 'b', '%2'))", "false\tinvalid capture index %2\n"),
        ("print(pcall(string.find, 'a', '[a'))", "false\tmalformed pattern (missing ']')\n"),
        ("print(pcall(string.find, 'a', '%'))", "false\tmalformed pattern (ends with '%')\n"),
        ("print(pcall(string.find, 'a', '(a'))", "false\tunfinished capture\n"),
        ("print(pcall(string.gsub, 'abc', 'b', {}, 'x'))", "false\tbad argument #4 to 'gsub' (number expected, got string)\n"),
        ("print(pcall(string.gsub, 'abc', 'b', true))", "false\tbad argument #3 to 'gsub' (string/function/table expected)\n"),
        ("print(pcall(string.gsub, 'abc', 'b', function() return {} end))", "false\tinvalid replacement value (a table)\n"),
        ("print(pcall(string.gsub, 'abc', '%w', {b = true}))", "false\tinvalid replacement value (a boolean)\n"),
    ]);
}

#[test]
fn lexical_forms() {
    check_outputs(&[
        (r#"print("a\tb\\c\"d\'e", 'x\ny')"#, "a\tb\\c\"d'e\tx\ny\n"),
        (r#"print(#"\a\b\f\n\r\t\v", ("\a\b\f\n\r\t\v"):byte(1, -1))"#, "7\t7\t8\t12\t10\t13\t9\t11\n"),
        (r#"print("\x41\x62", "\65\066\0670", "\u{48}\u{20AC}\u{10FFFF}" == "H\xE2\x82\xAC\xF4\x8F\xBF\xBF")"#, "Ab\tABC0\ttrue\n"),
        ("print(\"a\\z  \n   b\", \"line1\\\nline2\")", "ab\tline1\nline2\n"),
        ("print([[long\nstring]], [==[with ]] inside]==], #[[\nskipfirst]])", "long\nstring\twith ]] inside\t9\n"),
        ("--[[ block\ncomment ]] print('after') --[==[ another\n]==] print('more') -- line comment\nprint('end')", "after\nmore\nend\n"),
        ("print(#'\\0abc', ('a\\0b'):byte(2), 'a\\0b' == 'a\\0b', 'a\\0b' < 'a\\0c')", "4\t0\ttrue\ttrue\n"),
        ("#!/usr/bin/lua shebang line\nprint('ok')", "ok\n"),
        ("local t = {f = function(s) return s end} print(t.f'str', t.f[[long]], t.f{1}[1], type(t.f{}))", "str\tlong\t1\ttable\n"),
        ("print(0x10, 0Xa, 1e2, 1E+2, 1e-2, .5e1, 0x.1, 0xA.8p1, 0x1P-1, 3 .. 4)", "16\t10\t100.0\t100.0\t0.01\t5.0\t0.0625\t21.0\t0.5\t34\n"),
    ]);
    check_outputs(&[
        ("print(1 --[[inline]] + 2) ; ; ;print(3);", "3\n3\n"),
        ("local s = 'x' print(s:upper():lower():rep(2), ('%d'):format(7), #s:rep(4))", "xx\t7\t4\n"),
        ("print(type(nil), type(1), type('s'), type({}), type(print), type(function() end), type(true))", "nil\tnumber\tstring\ttable\tfunction\tfunction\tboolean\n"),
    ]);
}
