//! Load-time (compile-time) checks: syntax errors, goto/label rules, static limits.
mod common;
use common::*;
use minilua::load;

fn locals(n: usize) -> String {
    (0..n).map(|i| format!("local v{} = {}\n", i, i)).collect()
}

#[test]
fn local_variable_limit_main_chunk() {
    assert!(load(&locals(200)).is_ok());
    let e = load(&locals(201)).unwrap_err();
    assert_eq!(e.message, "input:201: too many local variables (limit is 200) in main function near '='");
    assert_eq!(e.line, 201);
    // block exit frees locals
    let src = format!("do\n{}end\ndo\n{}end\n", locals(150), locals(150));
    assert!(load(&src).is_ok());
    // a single declaration list counts pending variables too
    let names: Vec<String> = (0..201).map(|i| format!("a{}", i)).collect();
    assert!(load(&format!("local {}", names[..200].join(","))).is_ok());
    assert!(load(&format!("local {}", names.join(","))).unwrap_err().message.contains("too many local variables"));
}

#[test]
fn local_variable_limit_in_functions() {
    let src = format!("local function f(a, b)\n{}end", locals(198));
    assert!(load(&src).is_ok());
    let e = load(&format!("local function f(a, b)\n{}end", locals(199))).unwrap_err();
    assert_eq!(e.message, "input:200: too many local variables (limit is 200) in function at line 1 near '='");
    // parameters count
    let params: Vec<String> = (0..201).map(|i| format!("p{}", i)).collect();
    assert!(load(&format!("function f({}) end", params[..200].join(","))).is_ok());
    assert!(load(&format!("function f({}) end", params.join(","))).unwrap_err().message.contains("too many local variables"));
    // `self` of a method counts
    assert!(load(&format!("function t:f({}) end", params[..200].join(","))).is_err());
    // numeric for: 3 hidden + 1 visible
    assert!(load(&format!("{}for i = 1, 2 do end", locals(196))).is_ok());
    assert!(load(&format!("{}for i = 1, 2 do end", locals(197))).unwrap_err().message.contains("too many local variables"));
    // generic for: 3 hidden + n visible
    assert!(load(&format!("{}for k, v in pairs({{}}) do end", locals(195))).is_ok());
    assert!(load(&format!("{}for k, v in pairs({{}}) do end", locals(196))).is_err());
    // local function names count; nested functions have their own budget
    assert!(load(&format!("{}local function g()\n{}end", locals(199), locals(200))).is_ok());
    assert!(load(&format!("{}local function g() end", locals(200))).is_err());
}

fn upvalue_src(n: usize, use_global: bool) -> String {
    // n outer locals spread over two enclosing functions (max 200 locals each)
    let a: String = (0..n.min(150)).map(|i| format!("local a{} = 0\n", i)).collect();
    let b: String = (150..n).map(|i| format!("local a{} = 0\n", i)).collect();
    let uses: Vec<String> = (0..n).map(|i| format!("a{}", i)).collect();
    let g = if use_global { "print(1)\n" } else { "" };
    format!("{}local function mid()\n{}local function inner()\n{}return {}\nend\nend\n", a, b, g, uses.join("+"))
}

#[test]
fn upvalue_limit() {
    assert!(load(&upvalue_src(255, false)).is_ok());
    let e = load(&upvalue_src(256, false)).unwrap_err();
    assert!(e.message.contains("too many upvalues (limit is 255) in function at line"), "{}", e.message);
    // _ENV counts as an upvalue when the function touches a global
    assert!(load(&upvalue_src(254, true)).is_ok());
    assert!(load(&upvalue_src(255, true)).unwrap_err().message.contains("too many upvalues"));
}

#[test]
fn nesting_depth_limit() {
    let nest = |n: usize| format!("return {}1{}", "(".repeat(n), ")".repeat(n));
    assert!(load(&nest(190)).is_ok());
    let e = load(&nest(250)).unwrap_err();
    assert_eq!(e.message, "input:1: too many C levels (limit is 200) in main function near '('");
    let blocks = |n: usize| format!("{}{}", "do ".repeat(n), "end ".repeat(n));
    assert!(load(&blocks(190)).is_ok());
    assert!(load(&blocks(250)).unwrap_err().message.contains("too many C levels"));
    let funcs = |n: usize| format!("local f = {}{}", "function() return ".repeat(n), " end".repeat(n));
    assert!(load(&funcs(60)).is_ok());
    assert!(load(&funcs(150)).unwrap_err().message.contains("too many C levels"));
    let tables = |n: usize| format!("local t = {}{}", "{".repeat(n), "}".repeat(n));
    assert!(load(&tables(190)).is_ok());
    assert!(load(&tables(250)).is_err());
    let unary = |n: usize| format!("local x = {}1", "- ".repeat(n));
    assert!(load(&unary(190)).is_ok());
    assert!(load(&unary(250)).is_err());
    // right-associative operator chains nest; left-associative ones do not
    let cat = |n: usize| format!("local s = 'a'{}", " .. 'a'".repeat(n));
    assert!(load(&cat(150)).is_ok());
    assert!(load(&cat(250)).is_err());
    let add = |n: usize| format!("local s = 1{}", " + 1".repeat(n));
    assert!(load(&add(5000)).is_ok());
    // absurd depth must not overflow the native stack
    assert!(load(&nest(100_000)).is_err());
    assert!(load(&blocks(100_000)).is_err());
    // long left-deep chains are not nested and must load (and run) fine
    let chain = format!("local a = {{}} a.b = a local x = a{} print(x == a)", ".b".repeat(100_000));
    assert_eq!(out(&chain), "true\n");
    let sum = format!("print(0{})", " + 1".repeat(50_000));
    assert_eq!(out(&sum), "50000\n");
}

#[test]
fn break_and_goto_rules() {
    check_load_errors(&[
        ("break", "input:1: <break> at line 1 not inside a loop"),
        ("local x = 1\nif x then break end\nprint(x)", "input:3: <break> at line 2 not inside a loop"),
        ("while true do local function f() break end end", "input:1: <break> at line 1 not inside a loop"),
        ("goto nope", "input:1: no visible label 'nope' for <goto> at line 1"),
        ("do ::inner:: end\ngoto inner", "input:2: no visible label 'inner' for <goto> at line 2"),
        ("::a:: local function f() goto a end", "input:1: no visible label 'a' for <goto> at line 1"),
        ("::a::\n::a::", "input:2: label 'a' already defined on line 1"),
        ("goto f\nlocal x = 1\n::f::\nprint(x)", "input:4: <goto f> at line 1 jumps into the scope of local 'x'"),
        ("repeat\n  goto cont\n  local z = 1\n  ::cont::\nuntil z", "input:5: <goto cont> at line 2 jumps into the scope of local 'z'"),
        ("do goto l end\nlocal a\n::l:: print(a)", "input:3: <goto l> at line 1 jumps into the scope of local 'a'"),
    ]);
    for ok in [
        "goto f\nlocal x = 1\n::f::",
        "goto f\nlocal x = 1\n::f:: ;;; ::g::",
        "do goto f\nlocal x = 1\n::f:: end print(1)",
        "while true do break end",
        "repeat break until true",
        "for i = 1, 2 do if i then break end end",
        "for i = 1, 3 do for j = 1, 3 do if j == 2 then goto continue end ::continue:: end end",
        "::a:: do ::a:: end",
        "do ::a:: end do ::a:: end",
        "::top:: local x = 1 goto top",
        "while true do local y = 1 goto cont ::cont:: end",
        "do local a ::l:: local b goto l end",
        "if x then goto e end local q ::e::",
    ] {
        assert!(load(ok).is_ok(), "should load: {}: {:?}", ok, load(ok).err());
    }
}

#[test]
fn syntax_errors() {
    check_load_errors(&[
        ("x = = 1", "input:1: unexpected symbol near '='"),
        ("x = ", "input:1: unexpected symbol near <eof>"),
        ("local function f() return 1", "input:1: 'end' expected near <eof>"),
        ("local function f()\nreturn 1\n", "input:3: 'end' expected (to close 'function' at line 1) near <eof>"),
        ("if x then\nelse\n", "input:3: 'end' expected (to close 'if' at line 1) near <eof>"),
        ("for i = 1 do end", "input:1: ',' expected near 'do'"),
        ("for i in do end", "input:1: unexpected symbol near 'do'"),
        ("for 1 = 1, 2 do end", "input:1: <name> expected near '1'"),
        ("x", "input:1: syntax error near <eof>"),
        ("x.y", "input:1: syntax error near <eof>"),
        ("(x) = 1", "input:1: syntax error near '='"),
        ("f() = 1", "input:1: syntax error near '='"),
        ("local x = 1 +", "input:1: unexpected symbol near <eof>"),
        ("end", "input:1: '<eof>' expected near 'end'"),
        ("return 1 print(2)", "input:1: '<eof>' expected near 'print'"),
        ("local t = {1, 2", "input:1: '}' expected near <eof>"),
        ("print('abc", "input:1: unfinished string near <eof>"),
        ("print(\"abc\ndef\")", "input:1: unfinished string near '\"abc'"),
        ("x = [[abc", "input:1: unfinished long string (starting at line 1) near <eof>"),
        ("--[[ never closed", "input:1: unfinished long comment (starting at line 1) near <eof>"),
        ("x = '\\q'", "input:1: invalid escape sequence near ''\\q'"),
        ("x = '\\300'", "input:1: decimal escape too large near ''\\300''"),
        ("x = '\\xZZ'", "input:1: hexadecimal digit expected near ''\\xZ'"),
        ("x = 3x", "input:1: syntax error near <eof>"),
        ("x = 0x", "input:1: malformed number near '0x'"),
        ("x = 1e", "input:1: malformed number near '1e'"),
        ("x = 1..2", "input:1: malformed number near '1..2'"),
        ("function f() return ... end", "input:1: cannot use '...' outside a vararg function near '...'"),
        ("local function f(a,) end", "input:1: <name> or '...' expected near ')'"),
        ("f(", "input:1: unexpected symbol near <eof>"),
        ("a.1 = 2", "input:1: syntax error near '.1'"),
        ("local 1", "input:1: <name> expected near '1'"),
        ("x = }", "input:1: unexpected symbol near '}'"),
        ("x = 1 $ 2", "input:1: unexpected symbol near '$'"),
        ("goto", "input:1: <name> expected near <eof>"),
        ("::a", "input:1: '::' expected near <eof>"),
        ("local t = {} t:m", "input:1: function arguments expected near <eof>"),
        ("x = function end", "input:1: '(' expected near 'end'"),
        ("while true end", "input:1: 'do' expected near 'end'"),
        ("if x print(1) end", "input:1: 'then' expected near 'print'"),
        ("repeat x = 1", "input:1: 'until' expected near <eof>"),
        ("local x <const> = 1", "input:1: unexpected symbol near '<'"),
        ("x = a // // b", "input:1: unexpected symbol near '//'"),
        ("x = [=[ ]]", "input:1: unfinished long string (starting at line 1) near <eof>"),
        ("x = [==", "input:1: invalid long string delimiter near '[=='"),
    ]);
}
