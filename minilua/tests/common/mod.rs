#![allow(dead_code)]
use minilua::*;

pub fn opts() -> RunOptions {
    RunOptions::default()
}

/// Run `src`, require normal completion, return captured output.
pub fn out(src: &str) -> String {
    let r = run_source(src, &opts()).unwrap_or_else(|e| panic!("load error for {:?}: {}", src, e.message));
    match r.outcome {
        Outcome::Done => r.output,
        o => panic!("expected Done for {:?}, got {:?} (output so far: {:?})", src, o, r.output),
    }
}

/// Run `src`, require an uncaught error, return (class, message, line).
pub fn err(src: &str) -> (ErrClass, String, u32) {
    let r = run_source(src, &opts()).unwrap_or_else(|e| panic!("load error for {:?}: {}", src, e.message));
    match r.outcome {
        Outcome::Error { class, message, line } => (class, message, line),
        o => panic!("expected Error for {:?}, got {:?}", src, o),
    }
}

/// Load `src`, require a load error, return its message.
pub fn load_err(src: &str) -> String {
    match load(src) {
        Ok(_) => panic!("expected load error for {:?}", src),
        Err(e) => e.message,
    }
}

/// Check a table of (source, expected output) pairs; reports all mismatches at once.
pub fn check_outputs(cases: &[(&str, &str)]) {
    let mut bad = Vec::new();
    for (src, want) in cases {
        let r = std::panic::catch_unwind(|| out(src));
        match r {
            Ok(got) if got == *want => {}
            Ok(got) => bad.push(format!("SRC: {}\n  want: {:?}\n  got:  {:?}", src, want, got)),
            Err(_) => bad.push(format!("SRC: {}\n  did not complete", src)),
        }
    }
    assert!(bad.is_empty(), "{} of {} cases failed:\n{}", bad.len(), cases.len(), bad.join("\n"));
}

/// Check a table of (source, class, expected message) triples.
pub fn check_errors(cases: &[(&str, ErrClass, &str)]) {
    let mut bad = Vec::new();
    for (src, class, want) in cases {
        let r = std::panic::catch_unwind(|| err(src));
        match r {
            Ok((c, m, _)) if c == *class && m == *want => {}
            Ok((c, m, _)) => bad.push(format!("SRC: {}\n  want: {:?} {:?}\n  got:  {:?} {:?}", src, class, want, c, m)),
            Err(_) => bad.push(format!("SRC: {}\n  did not fail as expected", src)),
        }
    }
    assert!(bad.is_empty(), "{} of {} cases failed:\n{}", bad.len(), cases.len(), bad.join("\n"));
}

/// Check a table of (source, expected load error message) pairs.
pub fn check_load_errors(cases: &[(&str, &str)]) {
    let mut bad = Vec::new();
    for (src, want) in cases {
        match load(src) {
            Ok(_) => bad.push(format!("SRC: {}\n  loaded, wanted error {:?}", src, want)),
            Err(e) if e.message == *want => {}
            Err(e) => bad.push(format!("SRC: {}\n  want: {:?}\n  got:  {:?}", src, want, e.message)),
        }
    }
    assert!(bad.is_empty(), "{} of {} cases failed:\n{}", bad.len(), cases.len(), bad.join("\n"));
}
